#!/bin/bash
# usage: tools/seedrun.sh <patch.diff> <tier> <ID> [<ID>...]
# Applies a seeded change to a scratch worktree of /repo's HEAD, confirms that the existing suite still
# passes, runs the given checks against it (VERIF_REPO) and removes the worktree again.
set -u
export GOFLAGS=-mod=mod GOPROXY=off GOSUMDB=off GOTOOLCHAIN=local
patch=$(readlink -f "$1"); tier=$2; shift 2
wt=/tmp/seedcheck-$$
git -C /repo worktree add -q --detach "$wt" HEAD || exit 2
cleanup() { git -C /repo worktree remove --force "$wt" >/dev/null 2>&1; }
trap cleanup EXIT
if ! git -C "$wt" apply "$patch"; then echo "SEED patch does not apply"; exit 2; fi
if (cd "$wt" && go build ./... && go test -vet=off -count=1 ./... >/tmp/seedcheck-suite-$$.log 2>&1); then echo "SEED suite: passes with the change"; else echo "SEED suite: FAILS with the change"; tail -5 /tmp/seedcheck-suite-$$.log; fi
rm -f /tmp/seedcheck-suite-$$.log
for id in "$@"; do
  out=$(cd /verif && VERIF_REPO="$wt" ./check "$id" "$tier" 2>&1); rc=$?
  echo "SEED check $id $tier: exit $rc"
  echo "$out" | grep -E "^VIOLATION|^CANNOT|^  " | head -6
done
