#!/usr/bin/env python3
"""usage: tools/coverage.py [ID ...]
Statement coverage of the library's hand-written sources under the quick tier of the given properties
(default: all). Builds the harness with -cover -coverpkg=github.com/remieven/ysgo/..., runs every rapid
and enumerated sub-check once (shard 0, VERIF_SEED as given) with a cover profile, merges the profiles
and prints, per hand-written file, the blocks no check executed. Generated parser files are left out.
Nothing here decides a property: it is a way to read what the generators reach (DESIGN appendix E)."""
import os, re, subprocess, sys, collections
HERE = os.path.dirname(os.path.dirname(os.path.abspath(__file__)))
sys.path.insert(0, HERE)
from checks_config import PROPS
REPO = os.environ.get("VERIF_REPO", "/repo")
out = os.path.join(HERE, "out", "cover")
os.makedirs(out, exist_ok=True)
env = dict(os.environ, GOFLAGS="-mod=mod", GOPROXY="off", GOSUMDB="off", GOTOOLCHAIN="local", VERIF_REPO=REPO)
mod = open(os.path.join(HERE, "harness", "go.mod")).read()
mod = re.sub(r"(replace github.com/remieven/ysgo => ).*", lambda m: m.group(1) + REPO, mod)
open(os.path.join(out, "go.mod"), "w").write(mod)
subprocess.run(["cp", os.path.join(HERE, "harness", "go.sum"), out], check=True)
binary = os.path.join(out, "harness.cover.test")
subprocess.run(["go", "test", "-c", "-tags", "verif", "-vet=off", "-cover", "-coverpkg=github.com/remieven/ysgo/...", "-modfile",
                os.path.join(out, "go.mod"), "-o", binary, "."], cwd=os.path.join(HERE, "harness"), env=env, check=True)
ids = sys.argv[1:] or list(PROPS)
seed = int(os.environ.get("VERIF_SEED", "1"))
procs = []
for pid in ids:
    for sub in PROPS[pid]["subs"]:
        kind = sub.get("kind", "rapid")
        if kind == "fuzz":
            continue
        prof = os.path.join(out, "%s-%s.prof" % (pid, sub["name"]))
        e = dict(env, VERIF_OUT=out, VERIF_SHARD="cov-%s-%s" % (pid, sub["name"]), VERIF_TIER="quick", VERIF_SEED=str(seed))
        for k, v in sub.get("env", {}).get("quick", {}).items():
            e[k] = str(v)
        cmd = [binary, "-test.run=^%s$" % sub["test"], "-test.timeout=1500s", "-test.count=1", "-test.coverprofile=" + prof]
        if kind == "rapid":
            cmd += ["-rapid.checks=%d" % sub["checks"]["quick"], "-rapid.seed=%d" % (seed * 1000003 + 1), "-rapid.nofailfile"]
        procs.append((pid, sub["name"], prof, subprocess.Popen(cmd, cwd=out, env=e, stdout=subprocess.DEVNULL, stderr=subprocess.DEVNULL)))
        while sum(1 for p in procs if p[3].poll() is None) >= 12:
            procs[0][3].wait() if procs[0][3].poll() is None else [p[3].wait() for p in procs if p[3].poll() is None][:1]
blocks = collections.defaultdict(int)
per = collections.defaultdict(lambda: collections.defaultdict(int))
for pid, name, prof, p in procs:
    p.wait()
    if not os.path.exists(prof):
        print("no profile from", pid, name, "rc", p.returncode)
        continue
    for line in open(prof):
        m = re.match(r"(\S+):(\d+)\.(\d+),(\d+)\.(\d+) (\d+) (\d+)$", line)
        if m:
            key = (m.group(1), int(m.group(2)), int(m.group(3)), int(m.group(4)), int(m.group(5)), int(m.group(6)))
            blocks[key] += int(m.group(7))
            per[pid][key] += int(m.group(7))
skip = re.compile(r"internal/parser/yarnspinner\w*\.go|testutils|verif_hooks")
files = collections.defaultdict(list)
for key, n in blocks.items():
    if not skip.search(key[0]):
        files[key[0]].append((key, n))
tot = cov = 0
for f in sorted(files):
    bl = files[f]
    st = sum(k[5] for k, _ in bl); sc = sum(k[5] for k, n in bl if n)
    tot += st; cov += sc
    print("%-70s %4d/%4d statements" % (f.replace("github.com/remieven/ysgo/", ""), sc, st))
    src = open(os.path.join(REPO, f.replace("github.com/remieven/ysgo/", ""))).read().splitlines()
    for k, n in sorted(bl, key=lambda x: x[0][1:]):
        if n == 0:
            print("    uncovered %d.%d-%d.%d: %s" % (k[1], k[2], k[3], k[4], src[k[1] - 1].strip()[:110]))
print("total %d/%d statements of hand-written library code executed" % (cov, tot))
