#!/bin/sh
# usage: tools/r6.sh <prop> <checks...> : confirm + store both round-6 changes of <prop> (ids -12, -13) in the background
p=$1; shift
for n in 1 2; do id=$((11+n)); (python3 /verif/tools/seedconfirm.py /tmp/seedout6/$p/$n $p-$id $p "$@" > /verif/out/r6/$p-$id.json 2>&1 &); done
