#!/usr/bin/env python3
"""Regenerates the table of DESIGN.md appendix A from a sweep log (tools/seedsweep.sh), notes/seed_summaries.json and
notes/strengthened_by.json.  usage: tools/appendixA.py out/seedsweep3.log > out/appendixA.md"""
import json, re, sys
log = sys.argv[1]
summ = json.load(open("/verif/notes/seed_summaries.json"))
strong = json.load(open("/verif/notes/strengthened_by.json"))
RETIRED = {"C15-1": "retired: needs invalid UTF-8 in a result text, impossible since fix 297e363 (caught by C15 on the tree before it)"}
NOTES = {"C18-6": " (the agent's demonstration relied on scripts that fix c25c758 now refuses; the defect is still caught through refused scripts)"}
rows = {}
for line in open(log):
    m = re.match(r"^(C\d\d-\d+) confirmed=(\w+) (.*)$", line.strip())
    if not m:
        continue
    sid, conf, rest = m.groups()
    caught = [c.split(":")[0] for c in rest.split() if c.endswith(":CAUGHT")]
    other = [c for c in rest.split() if ":" in c and not c.endswith(":CAUGHT")]
    rows[sid] = (conf, caught, other)
print("| Seeded change | What it does | Caught by (quick tier) | Strengthening that was needed |")
print("|---|---|---|---|")
for sid in sorted(rows, key=lambda x: (x.split("-")[0], int(x.split("-")[1]))):
    conf, caught, other = rows[sid]
    c = ", ".join(caught) if caught else "**not caught in this sweep** (%s)" % " ".join(other)
    c += NOTES.get(sid, "")
    if sid in RETIRED:
        c = RETIRED[sid]
    print("| %s | %s | %s | %s |" % (sid, summ.get(sid, "").replace("|", "\\|"), c, strong.get(sid, "").replace("|", "\\|")))
missed = [s for s in rows if not rows[s][1] and s not in RETIRED]
print()
retired = [s for s in rows if s in RETIRED]
print("%d changes, %d caught in this sweep, %d retired, %d not caught: %s" % (len(rows), len(rows) - len(missed) - len(retired), len(retired), len(missed), " ".join(sorted(missed))))
