#!/bin/bash
# Re-confirms every stored seeded change against /repo's HEAD and re-runs the quick checks that are expected to catch it.
cd /verif
declare -A extra=( [C12-2]="C01" [C06-2]="C10" [C16-3]="C10" [C11-2]="C07" [C07-2]="C11" [C08-3]="C17" [C08-2]="C05" [C15-2]="C14" [C14-2]="C13" [C15-3]="C13"
  [C04-4]="C02" [C01-5]="C08" [C03-5]="C07" [C06-5]="C02" [C09-4]="C18" [C11-5]="C07" [C12-4]="C10" [C12-5]="C17" [C13-4]="C14" [C14-5]="C15" [C15-4]="C13" [C15-5]="C13" [C07-5]="C11"
  [C06-7]="C07" [C07-6]="C03" [C08-6]="C05" [C10-7]="C17" [C11-6]="C07" [C13-7]="C14" [C15-7]="C18" [C18-6]="C05" [C19-7]="C02"
  [C01-8]="C05" [C01-9]="C17" [C03-8]="C07" [C03-9]="C04" [C04-9]="C03" [C06-9]="C16" [C10-8]="C07" [C10-9]="C16" [C11-9]="C07" [C12-8]="C01" [C12-9]="C07"
  [C13-8]="C14" [C15-8]="C14" [C15-9]="C14" [C17-8]="C01" [C18-9]="C14"
  [C14-7]="C13" [C03-11]="C02" [C04-10]="C01" [C06-11]="C18" [C10-10]="C16" [C11-10]="C07" [C11-11]="C07" [C16-11]="C07" [C17-10]="C16" [C17-11]="C16" [C18-10]="C05" [C18-11]="C07" [C19-10]="C02" [C19-11]="C16"
  [C04-12]="C01" [C04-13]="C18" [C09-12]="C18" [C13-13]="C14" [C14-13]="C18" [C06-13]="C07" [C07-13]="C10" [C08-12]="C05" [C12-13]="C06" )
one() {
  id=$1; prop=${id%-*}
  race=""; case $prop in C18) race=1;; esac
  out=$(SEED_RACE=$race tools/seedconfirm.py seeded/$id $id $prop $prop ${extra[$id]:-} 2>&1 | python3 -c "
import sys,json
try:
    d=json.load(sys.stdin); print('confirmed=%s'%d['confirmed'], ' '.join('%s:%s'%(k,'CAUGHT' if v['exit']==1 else 'exit%d'%v['exit']) for k,v in d['quick_checks'].items()), d.get('error','')[:80])
except Exception as e:
    print('tool-error', e)")
  echo "$id $out"
}
if [ -n "$1" ]; then one "$1"; exit; fi
ls seeded | xargs -P ${SWEEP_JOBS:-4} -n 1 tools/seedsweep.sh
