#!/usr/bin/env python3
"""Classical mutation analysis of the hand-written sources of /repo against the quick checks.

For every mutant (one token-level change on one line): build; run the repository's own suite (a mutant the suite
kills is not interesting here); otherwise run the quick checks mapped to the mutated file, one after the other,
until one reports a violation. Survivors are listed for manual analysis (equivalent mutants and mutants that break no
listed property survive by right).

usage: tools/mutate.py [--workers N] [--files a.go,b.go] [--limit N] [--out out/mutation.jsonl]
"""
import argparse
import concurrent.futures
import json
import os
import re
import shutil
import subprocess
import sys
import threading

REPO = "/repo"
FILES = {
    "runner.go": ["C01", "C12", "C06", "C07", "C11", "C03", "C10", "C04", "C17"],
    "evaluator.go": ["C02", "C06", "C01"],
    "base_functions.go": ["C19", "C06", "C09"],
    "function_storer.go": ["C16", "C19", "C06", "C02"],
    "command_storer.go": ["C10", "C16", "C17", "C06"],
    "variable/value.go": ["C04", "C03", "C19"],
    "variable/in_memory_storer.go": ["C03", "C07"],
    "markup/line_parser.go": ["C13", "C15", "C14"],
    "markup/parse_result.go": ["C13", "C15"],
    "markup/processors.go": ["C13", "C15"],
    "internal/tree/parser_listener.go": ["C01", "C02", "C04", "C17", "C08", "C03", "C06"],
    "internal/tree/tree.go": ["C17", "C01", "C11", "C08"],
    "internal/tree/creator.go": ["C05", "C08", "C01"],
    "internal/tree/expression.go": ["C02", "C03", "C08"],
    "internal/parser/indent_aware_lexer.go": ["C08", "C20", "C05", "C01"],
    "internal/container/queue.go": ["C20"],
    "internal/container/stack.go": ["C20", "C01"],
    "internal/rng/rng.go": ["C09", "C06", "C05"],
    "internal/rng/seed.go": ["C09", "C05"],
}

REPLACEMENTS = [
    (r"<=", "<"), (r">=", ">"), (r"(?<![<=!>-])<(?![=<-])", "<="), (r"(?<![=>-])>(?![=>])", ">="),
    (r"==", "!="), (r"!=", "=="), (r"&&", "||"), (r"\|\|", "&&"),
    (r"(?<=[\w)\]]) \+ (?=[\w(])", " - "), (r"(?<=[\w)\]]) - (?=[\w(])", " + "), (r"(?<=[\w)\]]) \* (?=[\w(])", " / "),
    (r"\+\+", "--"), (r"\+= ", "-= "), (r"\btrue\b", "false"), (r"\bfalse\b", "true"),
    (r"(?<=[\s(\[,])0(?=[\s)\],;:])", "1"), (r"(?<=[\s(\[,+-])1(?=[\s)\],;:])", "0"), (r"(?<=[\s(\[,+-])1(?=[\s)\],;:])", "2"),
    (r"\bif (.+) \{$", r"if !(\1) {"),
]


def mutants_of(path):
    src = open(os.path.join(REPO, path)).read().split("\n")
    out = []
    in_comment_block = False
    for i, line in enumerate(src):
        stripped = line.strip()
        if stripped.startswith("//") or not stripped or stripped.startswith("import") or stripped.startswith("package"):
            continue
        code = line.split("//")[0] if '"' not in line else line
        for pat, rep in REPLACEMENTS:
            for m in re.finditer(pat, code):
                # skip matches inside string literals (crude: odd number of quotes before the match)
                if code[:m.start()].count('"') % 2 == 1 or code[:m.start()].count('`') % 2 == 1:
                    continue
                new = code[:m.start()] + m.expand(rep) + code[m.end():]
                if new != code:
                    out.append((i, line, new + line[len(code):], "%s -> %s" % (m.group(0)[:30], rep)))
        # statement deletion (simple call or assignment statements)
        if re.match(r"^\s+[\w.\[\]*()]+( = | := |\+\+|--|\()", line) and stripped.endswith((")", "++", "--")) and not stripped.startswith(("return", "if", "for", "switch", "case", "func", "go ", "defer")):
            out.append((i, line, re.match(r"^\s*", line).group(0) + "_ = 0 // deleted: " + stripped.replace("//", ""), "delete statement"))
    return out


lock = threading.Lock()


def run(cmd, cwd, env, timeout):
    try:
        p = subprocess.run(cmd, cwd=cwd, env=env, shell=True, stdout=subprocess.PIPE, stderr=subprocess.STDOUT, text=True, errors="replace", timeout=timeout)
        return p.returncode, p.stdout
    except subprocess.TimeoutExpired:
        return 124, "timeout"


def evaluate(worker_dir, path, mutant, checks, outfh, idx):
    lineno, old, new, desc = mutant
    env = dict(os.environ, GOFLAGS="-mod=mod", GOPROXY="off", GOSUMDB="off", GOTOOLCHAIN="local")
    full = os.path.join(worker_dir, path)
    src = open(os.path.join(REPO, path)).read().split("\n")
    src[lineno] = new
    open(full, "w").write("\n".join(src))
    rec = {"file": path, "line": lineno + 1, "old": old.strip(), "new": new.strip(), "op": desc}
    try:
        rc, out = run("go build ./... && go vet -tags verif . >/dev/null 2>&1; go build -tags verif ./...", worker_dir, env, 300)
        if rc != 0:
            rec["status"] = "does-not-compile"
            return rec
        rc, out = run("go test -vet=off -count=1 ./...", worker_dir, env, 300)
        if rc != 0:
            rec["status"] = "killed-by-suite"
            return rec
        rec["status"] = "survived"
        rec["checks"] = {}
        for c in checks:
            rc, out = run("./check %s quick" % c, "/verif", dict(env, VERIF_REPO=worker_dir), 1200)
            rec["checks"][c] = rc
            if rc == 1:
                rec["status"] = "killed-by-" + c
                viol = [l for l in out.splitlines() if l.startswith("VIOLATION")]
                rec["violation"] = viol[0][:160] if viol else ""
                break
        return rec
    finally:
        shutil.copy(os.path.join(REPO, path), full)
        with lock:
            outfh.write(json.dumps(rec) + "\n")
            outfh.flush()
            print(idx, rec["file"], rec["line"], rec["op"], "=>", rec.get("status"), flush=True)


def main():
    ap = argparse.ArgumentParser()
    ap.add_argument("--workers", type=int, default=6)
    ap.add_argument("--files", default="")
    ap.add_argument("--limit", type=int, default=0)
    ap.add_argument("--stride", type=int, default=1, help="take every n-th mutant")
    ap.add_argument("--offset", type=int, default=0, help="start at this mutant (with --stride)")
    ap.add_argument("--out", default="/verif/out/mutation.jsonl")
    args = ap.parse_args()
    files = [f for f in FILES if not args.files or f in args.files.split(",")]
    work = []
    for f in files:
        for m in mutants_of(f):
            work.append((f, m))
    work = work[args.offset::args.stride]
    if args.limit:
        work = work[:args.limit]
    print("mutants:", len(work), flush=True)
    dirs = []
    for w in range(args.workers):
        d = "/tmp/mutwork-%d" % w
        shutil.rmtree(d, ignore_errors=True)
        subprocess.run("git -C /repo worktree prune; git -C /repo worktree add -q --detach %s HEAD" % d, shell=True, check=True)
        dirs.append(d)
    free = list(dirs)
    os.makedirs(os.path.dirname(args.out), exist_ok=True)
    with open(args.out, "a") as outfh:
        def task(item):
            idx, (f, m) = item
            with lock:
                d = free.pop()
            try:
                return evaluate(d, f, m, FILES[f], outfh, idx)
            finally:
                with lock:
                    free.append(d)
        with concurrent.futures.ThreadPoolExecutor(max_workers=args.workers) as ex:
            list(ex.map(task, enumerate(work)))
    for d in dirs:
        subprocess.run("git -C /repo worktree remove --force %s" % d, shell=True)


if __name__ == "__main__":
    main()
