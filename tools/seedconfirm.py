#!/usr/bin/env python3
"""usage: tools/seedconfirm.py <seed-src-dir> <seeded-id> <property> [check ids...]
Confirms a seeded change in a scratch worktree (suite passes with it; demonstration fails with it and
passes without it), runs the given checks against it, and stores it as /verif/seeded/<seeded-id>/."""
import glob, json, os, re, shutil, subprocess, sys

src, sid, prop, checks = sys.argv[1], sys.argv[2], sys.argv[3], sys.argv[4:]
env = dict(os.environ, GOFLAGS="-mod=mod", GOPROXY="off", GOSUMDB="off", GOTOOLCHAIN="local")
wt = "/tmp/seedconfirm-%d" % os.getpid()
PKGDIR = {"markup": "markup", "markup_test": "markup", "ysgo": ".", "ysgo_test": ".", "container": "internal/container",
          "container_test": "internal/container", "parser": "internal/parser", "parser_test": "internal/parser", "tree": "internal/tree",
          "tree_test": "internal/tree", "variable": "variable", "variable_test": "variable", "rng": "internal/rng", "rng_test": "internal/rng"}

def sh(cmd, cwd=None):
    p = subprocess.run(cmd, shell=True, cwd=cwd, env=env, stdout=subprocess.PIPE, stderr=subprocess.STDOUT, text=True, errors="replace")
    return p.returncode, p.stdout

sh("git -C /repo worktree add -q --detach %s HEAD" % wt)
result = {"property": prop, "source": src}
try:
    demos = sorted(glob.glob(os.path.join(src, "demo*_test.go")))
    placed = []
    def place():
        for d in demos:
            pkg = re.search(r"^package (\w+)", open(d).read(), re.M).group(1)
            dst = os.path.join(wt, PKGDIR[pkg], "zz_seed_" + os.path.basename(d))
            shutil.copy(d, dst)
            placed.append((dst, PKGDIR[pkg]))
    def run_demos():
        ok = True
        outs = []
        for dst, pkg in placed:
            rc, out = sh("go test -vet=off -count=1 -run 'Demo|Seed|Test' ./%s 2>&1 | tail -15" % pkg, wt)
            # only the demo file's tests matter: run all tests of the package; the package's own tests pass anyway
            # only the demonstration's own tests: the package's suite has a test with a 5 ms timing margin that fails now and
            # then on a loaded machine (it passes with every stored change; that is established by the suite run above)
            names = re.findall(r"^func (Test\w+)\(", open(dst).read(), re.M)
            rc, out = sh("go test %s -vet=off -count=1 -run '^(%s)$' ./%s" % ("-race" if os.environ.get("SEED_RACE") else "", "|".join(names), pkg), wt)
            ok = ok and rc == 0
            outs.append(out[-600:])
        return ok, outs
    # 1. without the change: demo passes
    place()
    ok_without, _ = run_demos()
    # 2. with the change: suite (without demo) passes, demo fails
    for dst, _ in placed:
        os.remove(dst)
    rc, out = sh("git apply %s" % os.path.join(os.path.abspath(src), "patch.diff"), wt)
    rebased = False
    if rc != 0:
        rc, out = sh("git apply -3 %s" % os.path.join(os.path.abspath(src), "patch.diff"), wt)
        if rc != 0:
            print(json.dumps({"confirmed": False, "quick_checks": {}, "error": "patch does not apply: " + out})); sys.exit(2)
        rebased = True
        _, newdiff = sh("git diff HEAD", wt)
        result["rebased_patch"] = newdiff
    rc_build, _ = sh("go build ./... && go build -tags verif ./...", wt)
    rc_suite, out_suite = sh("go test -vet=off -count=1 ./...", wt)
    for _ in range(2):  # the suite's own timing test (5 ms margin) fails now and then on a loaded machine: a real failure fails every time
        if rc_suite == 0:
            break
        rc_suite, out_suite = sh("go test -vet=off -count=1 ./...", wt)
    placed.clear(); place()
    ok_with, outs = run_demos()
    for dst, _ in placed:
        os.remove(dst)
    result.update(builds=rc_build == 0, suite_passes_with_change=rc_suite == 0, demo_passes_without_change=ok_without, demo_fails_with_change=not ok_with)
    # 3. checks
    caught = {}
    for c in checks:
        p = subprocess.run(["./check", c, "quick"], cwd="/verif", env=dict(env, VERIF_REPO=wt), stdout=subprocess.PIPE, stderr=subprocess.STDOUT, text=True, errors="replace")
        viol = [l for l in p.stdout.splitlines() if l.startswith("VIOLATION")]
        caught[c] = {"exit": p.returncode, "violations": [re.sub(r"replay=\S+/", "replay=", v) for v in viol][:4]}
    result["quick_checks"] = caught
finally:
    sh("git -C /repo worktree remove --force %s" % wt)
confirmed = result.get("builds") and result.get("suite_passes_with_change") and result.get("demo_passes_without_change") and result.get("demo_fails_with_change")
result["confirmed"] = bool(confirmed)
print(json.dumps({k: v for k, v in result.items() if k != "rebased_patch"}, indent=1))
if confirmed:
    dst = os.path.join("/verif/seeded", sid)
    os.makedirs(dst, exist_ok=True)
    for f in ["patch.diff", "notes.md"] + [os.path.basename(d) for d in demos]:
        if os.path.exists(os.path.join(src, f)) and os.path.abspath(os.path.join(src, f)) != os.path.abspath(os.path.join(dst, f)):
            shutil.copy(os.path.join(src, f), os.path.join(dst, f))
    if result.get("rebased_patch"):
        open(os.path.join(dst, "patch.diff"), "w").write(result["rebased_patch"])
    notes = open(os.path.join(src, "notes.md")).read() if os.path.exists(os.path.join(src, "notes.md")) else ""
    meta = {"id": sid, "breaks_property": prop, "needs_to_manifest": "see notes.md (written by the seeding agent)",
            "base_commit": subprocess.run("git -C /repo rev-parse --short HEAD", shell=True, stdout=subprocess.PIPE, text=True).stdout.strip(),
            "confirmed": {k: result[k] for k in ("builds", "suite_passes_with_change", "demo_passes_without_change", "demo_fails_with_change")},
            "what_i_ran": ["git worktree of /repo HEAD; demo copied into its package: passes", "git apply patch.diff; go build ./... ; go test -vet=off -count=1 ./... : passes",
                           "demo copied again: fails", "VERIF_REPO=<worktree> ./check <id> quick for: " + " ".join(checks)],
            "quick_checks": result["quick_checks"]}
    json.dump(meta, open(os.path.join(dst, "meta.json"), "w"), indent=1)
