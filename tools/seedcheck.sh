#!/bin/sh
# usage: tools/seedcheck.sh <dir with patch.diff> <check id>... : apply the patch in a scratch worktree and run the quick checks against it
src=$1; shift
wt=/tmp/seedcheck-$$
git -C /repo worktree add -q --detach $wt HEAD || exit 2
(cd $wt && (git apply $src/patch.diff 2>/dev/null || git apply -3 $src/patch.diff >/dev/null 2>&1)) || { echo "patch does not apply"; git -C /repo worktree remove --force $wt; exit 2; }
for c in "$@"; do
  VERIF_REPO=$wt ${VERIF_HOME:-/verif}/check $c ${TIER:-quick} 2>&1 | grep -E "^(VIOLATION|OK|CANNOT|KNOWN|  \")" | cut -c1-${WIDTH:-400}
done
git -C /repo worktree remove --force $wt
