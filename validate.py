#!/usr/bin/env python3
"""Validates MANIFEST.json and evidence/*.json against the schemas (needs the tooling venv: python3-vt validate.py)."""
import glob, json, sys
import jsonschema
ok = True
def v(path, schema):
    global ok
    try:
        jsonschema.validate(json.load(open(path)), json.load(open(schema)))
        print("valid  ", path)
    except Exception as e:
        ok = False
        print("INVALID", path, str(e)[:300])
v("MANIFEST.json", "/root/.vp/MANIFEST.schema.json")
for p in sorted(glob.glob("evidence/*.json")):
    v(p, "/root/.vp/EVIDENCE.schema.json")
sys.exit(0 if ok else 1)
