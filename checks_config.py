"""Per-property configuration of the driver: sub-checks, case counts per tier, evidence texts."""


def rapid(name, test, quick, thorough, **kw):
    d = dict(name=name, test=test, kind="rapid", checks=dict(quick=quick, thorough=thorough))
    d.update(kw)
    return d


def enum(name, test, **kw):
    d = dict(name=name, test=test, kind="enum")
    d.update(kw)
    return d


def fuzz(name, test, seconds, **kw):
    d = dict(name=name, test=test, kind="fuzz", tiers=("thorough",), fuzztime=dict(thorough="%ds" % seconds, quick="5s"))
    d.update(kw)
    return d


NOT_CLAIMED = {}

PROPS = {
    "C01": dict(
        technique="model-based PBT: generated scripts and choice paths against a recursive reference interpreter; all choice paths of each script enumerated (bounded)",
        level_text="Scripts over the whole core language (lines with interpolation and tags, nested shortcut options with conditions, if/elseif/else, set/declare, "
                   "jump by name and expression out of nested bodies, stop, call, immediate commands, 1-5 nodes over 1-3 readers, unreachable statements after "
                   "jump/stop) are run by the real runner and by a reference interpreter written from the statement; traces (kind, node, text, tags, every "
                   "option's text/tags/Disabled, end marker), host-function and command logs and final variables must be equal. Junk arguments are passed to Next "
                   "whenever the previous element was not an option group. A second sub-check enumerates every choice sequence of each script (up to 256 paths). "
                   "Plain lines may carry an <<if>> condition (ignored by the language: neither evaluated nor obeyed), <<stop>> may be spelled with further words, later nodes may repeat an earlier title (the first one wins). A third of the hosts keep every element and look at all of them again at every step, a third overwrite every element after reading it. Enumerated: jump loops and command loops of up to 120 000 rounds without a line (no step budget). Search, not proof.",
        level_note="The reference interpreter (harness/model_script_test.go) and the canonical printer are the trusted base; scripts are rendered in the canonical "
                   "layout so that this check does not depend on C08. Traces are compared up to 60 elements; scripts running more than 300 statements without "
                   "yielding are discarded (the runner recurses per non-yielding statement).",
        rule="scripts from a recursive statement generator (depth <= 4, <= 70 statements) x a choice list x optional junk arguments; non-trivial = at least 3 elements "
             "and (option chosen at nesting depth >= 2, or jump from a nested body, or elseif/else clause taken, or stop inside a nested body, or more than one "
             "reader); all-paths: non-trivial = such a script with at least two paths; distinct = distinct serialised cases.",
        assumptions=["choices are reduced modulo the number of options (out-of-range choices are outside the property's domain)"],
        subs=[
            rapid("flow", "TestC01Flow", 1500, 8000),
            rapid("all-paths", "TestC01AllPaths", 120, 600),
            enum("long-silent-runs", "TestC01LongSilentRuns"),
            fuzz("flow", "FuzzC01Flow", 60),
        ],
    ),
    "C02": dict(
        technique="PBT with a reference evaluator (typed trees printed with minimal/redundant parentheses and every spelling) + exhaustive operator-table and precedence-triple enumeration",
        level_text="Generated typed expression trees (depth <= 5, 1 in 7 nodes deliberately ill-typed in a third of the cases) over literals, variables holding "
                   "arbitrary doubles (NaN, infinities, -0 included), booleans, strings and logging probe calls are printed with the minimal parentheses the "
                   "precedence table requires and evaluated by the real runner; value (type and bits), error-ness and the order/count of probe calls must equal "
                   "the reference evaluator's. Exhaustive: every operator x operand-type pair x spelling; every unparenthesised chain a op1 b op2 c; unary "
                   "operators against every binary operator; short-circuit with failing right operands. Literals include the neighbourhood of 2^31, 2^32, 2^53, 2^63, 2^64 and digit strings beyond the largest double; pairs of numbers 0-3 ulps apart (decimal sums against the decimal result, neighbouring doubles) go through every comparison; number/bool/string of a value of their own type appear anywhere; each expression is evaluated twice on one runner with probes that hand their argument back. A host function may write a variable in the middle of the expression; the host registers its own number() between the two evaluations; a third of the cases run on a storer that hands out the very values it keeps. Search, not proof.",
        level_note="The reference evaluator and printer (harness/model_expr_test.go) are written from the property text and are the trusted base; values are captured "
                   "through a host function (exact bits), not through text.",
        rule="typed trees from a recursive generator; non-trivial = at least two operators from different precedence levels, or a host call in the right operand of "
             "and/or, or an ill-typed node; distinct = distinct (tree, variable values).",
        assumptions=["string literals avoid the double quote and the backslash (not unescaped by the runner; outside the statement)",
                     "a panic on an ill-typed expression is left to C06 (discarded here, counted)"],
        subs=[
            rapid("eval", "TestC02Eval", 20000, 200000),
            enum("operator-table", "TestC02OperatorTable"),
            enum("precedence-triples", "TestC02PrecedenceTriples"),
            fuzz("eval", "FuzzC02Eval", 45),
        ],
    ),
    "C03": dict(
        technique="model-based PBT over assignment histories interleaved with host writes, against a typed map model; recording Storer; exhaustive operator x type table",
        level_text="Histories of up to 25 (thorough 60) steps - set with every assignment operator, declare, reads through a capturing host function, host writes of "
                   "any type under any name (type changes included) and host reads - are run one statement per Next call on a recording Storer and on the "
                   "library's InMemoryStorer; the whole history runs twice (the node jumps back to itself) and a third time after RestoreAt(Snapshot()). After every step: Next erred exactly when the model says so; GetValues equals the model; GetValue, Contains and "
                   "GetValues agree on presence and on a single type per name; a failing statement wrote nothing and a successful one wrote only its target; "
                   "values read by the script are the last ones assigned or written by the host. Exhaustive: operator x current type x assigned type x storer. Some steps read a variable, let host code called by the script write it, and read or compound-assign it again inside one Next call; declare may carry an `as` clause (a refusal of a mismatching clause is accepted only if nothing was written). Search, not proof.",
        level_note="Trusts the map model (assign in harness/model_script_test.go). After a failing statement the harness expects the marker line of the next statement; "
                   "if the runner resumed elsewhere the case would be discarded (counted), not failed.",
        rule="histories from a step generator over six variable names; non-trivial = at least one compound assignment to an existing variable and (a failing "
             "statement or a host write); distinct = distinct serialised histories.",
        assumptions=["numbers in this check are small decimals; exact IEEE behaviour of the arithmetic is C02's business"],
        subs=[
            rapid("histories", "TestC03Histories", 5000, 50000, env=dict(quick=dict(VERIF_C03_STEPS=25), thorough=dict(VERIF_C03_STEPS=60))),
            enum("operator-table", "TestC03OperatorTable"),
            fuzz("histories", "FuzzC03Histories", 45),
        ],
    ),
    "C04": dict(
        technique="PBT with a constructed oracle (source and expected text are built together, never parsed back) + validity predicate for number display + exhaustive character x position x escaping table",
        level_text="Lines and option groups are assembled from literal chunks over printable ASCII and multi-byte characters in which every escapable character is written "
                   "escaped or, where legal, raw (the first character of a line is drawn from its own classes), inline expressions of each type (numbers through "
                   "variables: integral up to 2^53 and beyond, fractional, tiny, huge; booleans; strings containing special characters), 0-3 tags over many characters, "
                   "trailing comments that look like commands/tags/expressions, and edge blanks. Expected: text = trimmed concatenation of the chunks' meanings and the "
                   "values' display forms; tags in order and absent from the text; comment absent; option count and order preserved; Disabled exactly when a "
                   "condition is present and false; everything is rendered twice by the same runner (the node jumps back to itself), in a fifth of the cases after three deliberately failing elements. Exhaustive: every character x {first, middle, last} x {raw, escaped} in a line and in an option. String literals written in the script carry escaped quotes at the start, inside and at the end. Search, not proof.",
        level_note="Number display is a predicate: integral |x| <= 2^53 exactly the integer digits (0 for both zeros); beyond 2^53 any text that reads back exactly; "
                   "otherwise a text that reads back exactly with no more significant digits than the shortest round-trip form. Not generated (statement silent or excluded "
                   "by the grammar): raw '[', an escaped bracket as first character, a literal backslash directly before a bracket (the markup phase would read it as an "
                   "escape), NaN and infinities, strings with markup characters.",
        rule="1-3 lines + 0-4 options per case, each of 1-5 parts; non-trivial = at least one escape or interpolation, or tags together with a comment; distinct = "
             "distinct serialised cases.",
        assumptions=["interpolated numbers are separated from neighbouring literals by ':' / ';' so that the displayed number can be isolated"],
        subs=[
            rapid("rendering", "TestC04Rendering", 10000, 100000),
            enum("character-table", "TestC04CharacterTable"),
            fuzz("rendering", "FuzzC04Rendering", 45),
        ],
    ),
    "C05": dict(
        technique="PBT + native fuzzing with a differential validity oracle (independent error listeners on the same grammar) and a constructed accept/reject catalogue",
        level_text="Arbitrary bytes, fragment soups, token/line mutations of all repository fixtures, node-boundary and byte-offset reader "
                   "splits and arbitrary seeds are loaded; the outcome must be exactly one of (runner, error), never a panic, and must agree "
                   "with an independent lexer+parser pair carrying the harness's own error listeners; a catalogue of constructed "
                   "valid/invalid scripts pins the expectation independently of the grammar code. Generated valid scripts also carry number literals of up to 5000 digits and lines of up to 140 KiB; invalid ones also have the last node end or an endif split by a foreign character (U+FEFF, U+200B, ...). A watchdog decides termination for inputs of at most 8 KiB and is inconclusive above. The independent parse must consume the whole input; pieces come through nine kinds of readers (positioned SectionReader and file, one byte per read, failing half-way ...). Search, not proof.",
        level_note="The validity oracle shares the generated ANTLR grammar with the code under test (the property is stated relative to that grammar); "
                   "the catalogue and constructed sub-checks (generated scripts in random layouts must load; the same with one edit that is invalid under any reading - a line re-indented by a tab/blank mixture, a dropped or extra endif, an unclosed if, a stray else, a dropped >>, a dropped closing brace, a dropped node end - must be refused) are the grammar-independent part; the sequence sub-check loads several inputs in one process. Running the loaded script is C06's business.",
        rule="inputs: arbitrary bytes/strings, fragment soups, random-indentation bodies, 1-3 mutations of fixtures, fixtures split at node "
             "boundaries or random byte offsets over 1-4 readers, seeds from five classes; non-trivial = input with a syntax error that still "
             "contains a '---' body marker, or a valid mutated/split script; distinct = distinct serialised cases.",
        assumptions=["zero readers is not a split and is not generated", "a panicking independent parse counts as invalid"],
        subs=[
            rapid("load", "TestC05Load", 5000, 60000),
            rapid("constructed", "TestC05Constructed", 1000, 10000),
            rapid("sequence", "TestC05Sequence", 1500, 15000),
            enum("catalogue", "TestC05Catalogue"),
            fuzz("load", "FuzzC05", 120),
        ],
    ),
    "C06": dict(
        technique="fault-injection PBT: faults from a catalogue placed in every expression context of generated acyclic scripts, against the reference interpreter up to the first error; exhaustive fault x context matrix; domain PBT of the random built-ins",
        level_text="Generated acyclic scripts (forward jumps only) receive faulty statements from a catalogue - ill-typed operations, unknown variables/nodes/"
                   "functions/commands, wrong argument counts and types, the null literal, a no-result host function used as a value, dice/random_range outside "
                   "their domain (0, negative, reversed, NaN, infinities, beyond int64, overflowing ranges), type-changing and compound-on-unknown assignments, "
                   "non-boolean conditions - in every expression context (line interpolation, option text and condition, set/compound-set right-hand side, "
                   "if/elseif condition, jump expression, call and command arguments) at any nesting depth. No Next call may panic; the trace must equal the "
                   "reference interpreter's up to and including the first error; 12 further Next calls must return without panic. Exhaustive: catalogue x context x "
                   "{top level, inside a chosen option}. A separate sub-check sweeps dice/random_range over arbitrary doubles. After the first error Next is called with hostile arguments next to a twin that passes 0: no panic and identical events; text that is not valid markup is a fault too; a third of the scripts loop, so that failed statements are visited again. Enumerated: a &variable.Value{} from a host function and from a host storer in 16 contexts never makes Next panic. Search, not proof.",
        level_note="Flow after the first error is not compared (the statement only promises 'usable'). Scripts are acyclic so that no continuation can recurse without "
                   "bound. For non-integral arguments of dice/random_range an error is demanded only when no integer reading (floor, ceiling, truncation) is valid.",
        rule="scripts from the flow generator with faulty statements injected (about one statement in nine); non-trivial = the run reaches a fault; "
             "random-domain: non-trivial = must-error argument or a returned value; distinct = distinct serialised cases.",
        assumptions=["choices are in range (an out-of-range choice is outside the property's domain)", "scripts that never yield (infinite jump loops) are outside the domain"],
        subs=[
            rapid("faults", "TestC06Faults", 2500, 25000),
            enum("fault-matrix", "TestC06FaultMatrix"),
            enum("values-without-content", "TestC06ValuesWithoutContent"),
            fuzz("faults", "FuzzC06Faults", 60),
            rapid("random-domain", "TestC06RandomDomain", 20000, 200000),
            rapid("ill-typed-expressions", "TestC06IllTypedExpressions", 10000, 100000),
            enum("operator-table", "TestC06OperatorTable"),
        ],
    ),
    "C07": dict(
        technique="differential PBT over (run, save point, receiver state, continuation): snapshot immutability, resume vs a replayed fresh runner, independence of restored runners, re-snapshot equality, failed restore vs untouched twin",
        level_text="Generated deterministic scripts (every node logs its entry through a host probe and starts with a line; jumps, cycles, options, sets, rendered "
                   "visit counts, failing jumps, variables only some paths define, a harness-held <<hold>> command; recording storer or the library's InMemoryStorer; variables supplied by the host or set by the start node itself) are run with choices c; a snapshot S is taken after k Next calls. Checked: (a) S, deep-copied at "
                   "that moment, is unchanged after the original went on and after restored runners were driven; (b) a receiver in a generated state (fresh, mid-run, "
                   "waiting for a choice, waiting for a never-completing command, ended) restored from S and driven with c' yields the same elements as a fresh runner "
                   "replayed to that node entry and then driven with c'; (c) a second runner restored from S is unaffected by driving the first; (d) Snapshot() "
                   "right after RestoreAt equals S; (e) restoring a snapshot that names an unknown node fails and the runner goes on like an untouched twin. (f) a snapshot whose visit or variable map is nil restores and continues like one whose map is empty; stores are compared bit-wise (signed zeros). The host may register its own visited(), change the values and counts of a second snapshot through its pointers, and call a function that changes its argument in place; a refused restore changes nothing in any receiver state; start nodes may lack a title. Search, not proof.",
        level_note="Model-free apart from a pre-check that the script is fault-free; relies on the entry probe being the first statement of every node to locate 'the most "
                   "recent node entry'. nil and empty maps are identified. Scripts using random built-ins are not generated (the property excludes them).",
        rule="script x original choices x k in 0..14 x receiver state x receiver choices x continuation choices; non-trivial = snapshot taken after at least one jump "
             "and restored into a non-fresh receiver; distinct = distinct serialised cases.",
        assumptions=["variables are put into the host storer before the runner is created (the start node's entry is the creation of the runner)"],
        subs=[rapid("snapshots", "TestC07Snapshots", 300, 3000)],
    ),
    "C08": dict(
        technique="metamorphic PBT: the same generated program rendered in the canonical and in a tape-driven random layout; reflect.DeepEqual of the parsed dialogues and equality of traces",
        level_text="Every generated program is rendered twice - canonical layout and a layout drawn from: indentation unit 1-8 blanks, tabs, or a different width per block; "
                   "if-bodies indented or flat; LF or CRLF; final newline or not; blank, whitespace-only and comment lines (column 0, block indentation, deeper, enclosing "
                   "block's indentation) before, between and after the statements of every body and between options; trailing comments and blanks; every spelling of "
                   "every operator and of the assignment; redundant parentheses; extra blanks inside commands and expressions. Both renderings must load, the parsed "
                   "dialogues must be deep-equal (also when all nodes are put into one reader), and the traces, host-function and command logs for two choice "
                   "sequences must be equal. One comment line and one whitespace-only line per layout may be up to 140 000 characters long. Indentation may change kind from level to level, every line may have its own line end (LF, CRLF, CR), and a multi-byte character may be moved across a multiple of 512 B ... 4 MiB. Search, not proof. The markup attributes of every element are compared too; blanks before trailing comments; files read as consecutive windows on one stream.",
        level_note="Blanks that separate literal line text (or a trailing inline expression) from a trailing comment are part of the line's text in the parsed dialogue - "
                   "the repository's own tree snapshots pin this - so in that position the comment is attached without a blank. Extra blanks between 'jump' and its "
                   "destination are a known finding and are excluded by construction (replay/C08/jump-double-blank.json).",
        rule="program x layout (about 450 layout decisions on a tape biased to the canonical choice) x 2 choice lists; non-trivial = layout differs from canonical in at "
             "least two dimensions, one of them a blank/whitespace-only/comment line, and the traces hold at least 3 elements; distinct = distinct serialised cases.",
        assumptions=["indentation mixing tabs and blanks inside one line is a syntax error (C05), not layout"],
        subs=[
            rapid("layouts", "TestC08Layouts", 500, 5000),
            fuzz("layouts", "FuzzC08Layouts", 60),
        ],
    ),
    "C09": dict(
        technique="differential PBT over pairs of executions (same process with interfering runners and global math/rand use in between; fresh child processes) + range predicate over captured draws",
        level_text="Generated scripts whose lines, set statements and conditions use dice, random and random_range (so that flow depends on the draws) are run twice with the "
                   "same seed and choices; between the runs other runners with the same and another seed are created and driven (one left half-way and continued "
                   "afterwards) and the global math/rand source is consumed and re-seeded; a third run is interleaved step by step with a runner of another seed created while it is under way: traces, error texts, host-function/command logs and final variables must "
                   "be identical. The test binary re-executes itself to repeat the run in fresh processes (once cold, once after unrelated runners ran first). A "
                   "third sub-check captures every draw exactly for arbitrary seeds and bounds (n in [1,2^53), a <= b within +-2^52, n=1 and a=b included): "
                   "integer in range, random() in [0,1), same sequence on a second runner. A fourth sub-check lets the script itself evaluate its range conditions (60 draws of random() per evaluation) thousands of times per case: about 8*10^7 draws in the quick tier and 2*10^9 in the thorough tier. Further sub-checks: one rounding rule explains the draws for arguments that are not whole; scripts colliding in length and 32-bit checksum with one loaded before run as themselves; spans of up to 9*10^18. Search, not proof.",
        level_note="Model-free: nothing is assumed about which numbers a seed produces. The empty seed (random) is outside the property.",
        rule="script x seed from [0-9a-z]{1,16} x choices; non-trivial = at least 3 call sites of random built-ins and at least 2 distinct rendered draws; ranges: "
             "at least 3 draws with at least 2 distinct values; distinct = distinct serialised cases.",
        assumptions=["child processes are started from the same test binary (os.Args[0])"],
        subs=[
            rapid("determinism", "TestC09Determinism", 600, 6000),
            rapid("cross-process", "TestC09CrossProcess", 12, 60, shards=dict(quick=1, thorough=16)),
            rapid("ranges", "TestC09Ranges", 5000, 50000),
            rapid("ranges-at-volume", "TestC09Volume", 80, 600, shards=dict(quick=4, thorough=16)),
            rapid("argument-rule", "TestC09ArgumentRule", 150, 1500, shards=dict(quick=1, thorough=4)),
            enum("checksum-collisions", "TestC09ChecksumCollisions"),
        ],
    ),
    "C10": dict(
        technique="schedule-owning PBT under the race detector: the harness holds every command's completion (channels it fills, gates it opens) and checks the poll/resume state machine against the stated protocol; exhaustive shape x schedule x result matrix; lower-bound timing check for <<wait>>",
        level_text="Scripts with 1-5 commands between marker lines and probe-calling set statements; handlers of every supported shape (raw AddCommand channel, converted "
                   "func(...) chan error, func(...) <-chan error, func(...), func(...) error); per command a schedule: complete on return, or after p in 1..4 waiting "
                   "polls, with nil or an error. While a command is incomplete every Next must return ErrWaitingForCommandCompletion (errors.Is) within 10 s although "
                   "the handler is provably still blocked, without handler invocation, function call or storer write; after completion was reported the next Next "
                   "resumes (bounded polling only for the goroutine shapes, whose delivery is asynchronous); an error is returned by exactly one call; the statement "
                   "after the command runs exactly once and its marker is the next element; every command statement invoked its handler exactly once with its "
                   "arguments. The whole binary runs under -race: any report is a violation. <<wait n>>: completion no earlier than n after the starting call. In a third of the <<wait>> cases the first wait is abandoned by RestoreAt part-way and the dialogue is run again: every wait still lasts its full time. A refused restore while a command is pending changes nothing; an abandoned raw handler reads its own arguments when it finishes. Search, not proof. Commands that a chosen option leads to directly; handlers of the same names on another runner of the process; a restore after the pending command has already reported its outcome.",
        level_note="The harness owns the completion schedule, not the goroutine scheduler: for the two goroutine shapes the moment at which the bridge's goroutine delivers "
                   "the result is not controlled (polling is bounded at 100000 polls of 200 microseconds). Time is only used as a lower bound (wait) or as a 10 s liveness limit in a situation "
                   "made deterministic. When a channel is already filled on return, the starting Next may either go on or report waiting once (statement silent).",
        rule="1-5 commands x shape x polls in {0,1,2,3,4} x nil/error; non-trivial = at least one command pending for at least one poll; wait: a wait that was observed pending; "
             "distinct = distinct serialised cases.",
        assumptions=["race detector reports are attributed to the property whichever goroutines are involved"],
        subs=[
            rapid("pending", "TestC10Pending", 200, 3000, race=True),
            enum("schedule-matrix", "TestC10ScheduleMatrix", race=True),
            rapid("wait", "TestC10Wait", 12, 40, race=True, shards=dict(quick=1, thorough=4)),
            rapid("restore-while-pending", "TestC10RestoreWhilePending", 60, 600, race=True),
        ],
    ),
    "C11": dict(
        technique="model-based PBT over jump histories: reference visit counter vs rendered visited()/visited_count() and Snapshot().VisitedNodes at every step; bounded all-paths enumeration",
        level_text="Jump-heavy generated scripts (2-5 nodes, self-loops and cycles, jumps by name and by expression out of nested option/if bodies, failing jumps "
                   "to unknown nodes, any subset of nodes with tracking: never/always) whose lines render visited_count and visited for every node and for a "
                   "non-node; at every element the rendered values and Snapshot().VisitedNodes must equal the reference interpreter's count of completed leaves "
                   "by jump per tracked node, and no count may decrease. Hand-made snapshots (any node, any counts) are restored mid-run in half the cases; a quarter of the scripts end with nodes repeating an earlier title under the opposite tracking header. A further sub-check asks for the counts under the name the library itself reports for nodes whose title line carries blanks, tabs or wide blanks. Search, not proof.",
        level_note="Trusts the reference interpreter; absent map entries are read as 0; after a failed jump both model and runner continue with the next statement.",
        rule="scripts from the flow generator with jump-ending nodes x choice list; non-trivial = at least 3 jumps and (a count >= 2 or an untracked node left "
             "through a jump); all-paths: every choice sequence (<= 64 paths) of such a script; distinct = distinct serialised cases.",
        assumptions=["traces are cut at 60 elements (cyclic scripts never end)"],
        subs=[
            rapid("visits", "TestC11Visits", 2000, 20000),
            rapid("all-paths", "TestC11AllPaths", 30, 400),
            rapid("titles-as-reported", "TestC11Titles", 600, 3000, shards=dict(quick=1, thorough=2)),
        ],
    ),
    "C12": dict(
        technique="model-based PBT: fault-free scripts driven to their end (stop at any depth / node end / end after an option group), then further Next calls with arbitrary arguments checked for the end marker and for absence of side effects on a recording storer and logging handlers",
        level_text="Generated scripts biased towards <<stop>> inside nested bodies with statements remaining and towards ends right after option groups, with <<wait n>> commands that complete by themselves and a never-completing host command registered under 'stop', are driven "
                   "to the first end; 1-6 further Next calls with arbitrary arguments (0, in range, out of range, negative, huge) must each return (nil, nil) "
                   "without panic, storer write, host-function call or command dispatch. A host function that panics is part of the scripts: whatever Next does with the panic, once it has reported the end nothing may be shown or run. Host errors wrapping io.EOF are errors, not the end; enumerated: a stop nested 1-24 blocks deep. Search, not proof. A quarter of the scripts contain failing jumps and are driven past every error until the runner itself reports the end.",
        level_note="The runner is driven until it reports the end itself (runs without an end inside the element limit are discarded, counted); the reference interpreter only classifies how the end was reached.",
        rule="acyclic scripts (forward jumps only, so every run ends) x choices x 1-6 arguments for the calls after the end; non-trivial = end by stop with "
             "statements remaining or inside a nested body, or end directly after an option group; distinct = distinct serialised cases.",
        assumptions=["'until a snapshot is restored' is C07's business"],
        subs=[rapid("absorbing-end", "TestC12End", 2500, 25000), enum("deep-stop", "TestC12DeepStop")],
    ),
    "C13": dict(
        technique="PBT with a constructive reference model (expected text/ranges computed from the generated segment structure) + small-scope enumeration",
        level_text="Lines are assembled from a segment grammar (text incl. multi-byte and edge whitespace, escapes, open/close/close-all/"
                   "self-closing markers with typed properties and padding, nesting/overlap, character prefix, select/plural/ordinal/nomarkup) and "
                   "the parse result is compared with a model computed from the structure: text, attribute multiset (name, rune position, length, "
                   "typed properties), TextForAttribute. Enumerated: ordinal/plural 0..130, decimal literal forms, character names, text-bit pairs. Text bits include characters whose last UTF-8 byte is 0x85 or 0xA0 and wide blanks; every marker kind is enumerated after 0-3 characters of text. Further: trimwhitespace on replacement markers, bare words equal to true/false only under Unicode case folding, an unclosed marker named character next to a Name: prefix. Search, not proof. Several markers of one name open at once next to markers of other names are decided by a pairing-rule independent oracle (starts, multiset of ends, same attributes with and without the other names).",
        level_note="Constellations on which the documentation is silent are not generated (a whitespace-swallowing marker directly after another marker "
                   "or escape, re-opening a name that is still open, raw ']' in text, a colon outside a leading 'Name: ' prefix decides nothing about the "
                   "character attribute). Decimal properties are compared with 1e-12 relative tolerance.",
        rule="generated segment lists (1-10 segments); non-trivial = at least two markers and (multi-byte text before a marker, or nesting/overlap, "
             "or a replacement marker, or a decimal property); distinct = distinct serialised segment lists.",
        assumptions=["whitespace = unicode.IsSpace, as strings.TrimSpace uses", "attribute order and SourcePosition are not compared (C14 compares SourcePosition)"],
        subs=[
            rapid("parse", "TestC13Parse", 15000, 150000),
            enum("enumerated", "TestC13Enumerated"),
            rapid("character-prefix", "TestC13CharacterPrefix", 1500, 8000, shards=dict(quick=1, thorough=2)),
            rapid("repeated-names", "TestC13RepeatedNames", 8000, 40000, shards=dict(quick=1, thorough=4)),
            fuzz("parse", "FuzzC13Parse", 45),
        ],
    ),
    "C14": dict(
        technique="PBT over call histories with a differential oracle (reused parser vs fresh parser; same line after different dialogue prefixes)",
        level_text="For generated histories of well-formed, truncated and garbage lines parsed on one LineParser, the result for a probe line "
                   "(text, attributes, positions, source positions, error-ness) must deep-equal the result on a fresh parser, also when parsed twice; "
                   "at runner level the Line of the probe after a prefix of other lines (including lines whose markup fails) must equal the Line of the probe alone. Exhaustive pairs over 13 atoms; histories of 20-90 lines in which the probe has been parsed before. Every result handed out must still equal a deep copy taken at once after each later parse; in half the cases the caller overwrites everything reachable in earlier results before the probe is parsed; through the runner the lines are also shown as the options of one group. The probe is also parsed on a copy of the used parser value; long histories carry kilobytes of replacement text and lines with hundreds of markers. Search, not proof.",
        level_note="Model-free differential check: it trusts nothing but reflect.DeepEqual. Lines that panic are C15's business and are discarded here.",
        rule="history of 0-6 lines (well-formed from the C13 grammar, truncated, or fragment soup) x probe line; non-trivial = the history contains a "
             "marker-bearing line and the probe yields at least one attribute; distinct = distinct (history, probe) pairs.",
        assumptions=["runner-level comparison only for lines that can be embedded verbatim in a Yarn script (no # { } < > \\ //, no edge blanks)"],
        subs=[
            rapid("pure", "TestC14Pure", 10000, 100000),
            enum("pairs", "TestC14Pairs", env=dict(quick=dict(VERIF_C14_HISTORY_ATOMS=2, VERIF_C14_PROBE_ATOMS=3),
                                                  thorough=dict(VERIF_C14_HISTORY_ATOMS=3, VERIF_C14_PROBE_ATOMS=3))),
            rapid("long-history", "TestC14LongHistory", 1500, 15000),
            fuzz("pure", "FuzzC14Pure", 45),
        ],
    ),
    "C15": dict(
        technique="PBT + native fuzzing with a validity predicate over every result (ranges inside the text, TextForAttribute safe)",
        level_text="Arbitrary bytes (invalid UTF-8 included), arbitrary strings, assemblies of marker fragments, well-formed lines with edge whitespace "
                   "and mutated well-formed lines: ParseMarkup must return without panic, exactly one of (result, error); every attribute must satisfy "
                   "0 <= position, 0 <= length, position+length <= characters(text); TextForAttribute must not panic and must have the attribute's length. "
                   "Thorough adds a native coverage-guided campaign. Inputs also spread the bytes of one character over several raw sections and give replacement markers values at k*2^e +- 2 up to 2^64. Search, not proof.",
        level_note="Termination is observed as 'returns within the process timeout'; a hang is triaged by the driver through capture mode.",
        rule="inputs from five classes (bytes, strings, fragment soup, padded well-formed, mutated well-formed); non-trivial = contains '[' and either "
             "succeeds with at least one attribute or fails; distinct = distinct inputs.",
        assumptions=["length comparison of TextForAttribute is skipped when the text is not valid UTF-8"],
        subs=[
            rapid("total", "TestC15Total", 20000, 200000),
            rapid("reused-parser", "TestC15Reused", 10000, 100000),
            fuzz("total", "FuzzC15", 120),
        ],
    ),
    "C16": dict(
        technique="PBT over Go function types built with reflect.FuncOf/MakeFunc (recording probes) x script-side argument lists, with an accept/refuse/don't-care registration oracle and an exact argument-conversion oracle; exhaustive signature table for arity <= 2",
        level_text="Function types with 0-3 parameters (+ optional variadic tail) over int, int8..int64, uint, uint8, float32, float64, bool, string, named variants of "
                   "int/int8/float64/string/bool, struct, slice, pointer, interface, func, channels and error, and 0-3 results, are built by reflection with a recording "
                   "body, registered through ConvertAndAddFunction / ConvertAndAddCommand (also nil and non-function values) and called from a script with 0-4 "
                   "arguments of mostly fitting, sometimes wrong, count and type. Registration must never panic; non-functions, nil, unbridgeable parameter or result "
                   "kinds and too many results must be refused; predeclared signatures with legal result shapes must be accepted; an accepted function is either "
                   "refused at call time (count/type mismatch, without running) or runs exactly once with arguments equal to Go's conversion to the declared type, and "
                   "its value or error reaches the script; after a refused registration the name is simply unknown (an error, never a panic); the bridge never panics. Exhaustive: all parameter lists of length <= 2 over the pool. Channel result types outside the pool (chan of a concrete error type, send-only, named) must never panic or hang; in a quarter of the synchronous cases the host function registers functions and commands on the calling runner while it runs; every Next runs under a 20 s watchdog. Registration under built-in names, an earlier handler surviving a refused registration, one conversion rule for fractional numbers, result types with a String method, function-local types that print alike. Search, not proof. Nil channels returned by channel-shaped handlers and nil values of function types are never a panic.",
        level_note="Where the statement does not decide (uint kinds, interface{} parameters, a command returning a plain value) registration may go either way, but 'accepted "
                   "implies callable' still applies. A fractional number sent to an integer parameter may arrive as either neighbouring integer. Typed nil function "
                   "values and error-implementing pointer result types are not generated (outside the stated type pool).",
        rule="(kind, parameter types, variadic, result types, host-error flag, argument list); non-trivial = an accepted signature that is invoked or refused at call "
             "time; distinct = distinct serialised cases.",
        assumptions=["numbers passed to integer parameters are within the range of every integer kind (-100..100)", "handlers without channel complete within 2 s"],
        subs=[
            rapid("bridge", "TestC16Bridge", 10000, 100000),
            enum("signature-table", "TestC16SignatureTable"),
            rapid("conversion-rule", "TestC16ConversionRule", 3000, 30000),
            enum("types-that-print-alike", "TestC16TypesThatPrintAlike"),
        ],
    ),
    "C17": dict(
        technique="PBT with a word classifier written from the statement: generated command statements, logging handlers plus decoy handlers under every keyword and under 'stop'; exhaustive word table",
        level_text="Command statements <<name w ...>> over plain, keyword-prefixed (iffy, settings, jumpy, callme, declared, enumx, casey, localx, stopper, ifx, setup) and "
                   "generated names, with 0-5 arguments from identifier-like and multi-byte words, true/false, decimal literals, near misses (True, nan, inf, Infinity, "
                   "1e5, 0x10, 0x1p4, +5, 1_0, -, --x, keywords as words), {expressions} of each type, and 0-2 extra blanks at every position, are run with a logging "
                   "handler under the name and decoy handlers under stop/if/set/jump/call/... . The handler must be invoked exactly once with exactly the typed values "
                   "in order and the dialogue must continue after the command; <<stop ...>> ends the dialogue without any dispatch; an unregistered name is an "
                   "error without any dispatch. Exhaustive: every pooled word as only/first/last argument of every pooled name. Decimal words include k*2^e + d up to 2^128 with a point anywhere; the handler may replace an earlier raw or converted registration of the same name. Handlers keep the slices they were given: they still read the same after later commands. Search, not proof. Literal negations among the expression arguments; a handler of the same name on another runner of the process.",
        level_note="Trusts the classifier (classifyCommandWord: true/false, ^-?digits(.digits)?$ numbers, everything else a string). Not generated because the statement is "
                   "silent: '5.' and '.5', tabs as separators, words containing '>' or '{', expressions glued to words. Names starting with else/endif/endenum are a "
                   "known finding and excluded by construction (replay/C17/name-starting-with-*.json).",
        rule="command statements from name, word and blank generators; non-trivial = at least two arguments of at least two types, or a keyword-prefixed name; "
             "distinct = distinct serialised cases.",
        assumptions=["handlers complete immediately (pending commands are C10's business)"],
        subs=[
            rapid("arguments", "TestC17Arguments", 10000, 100000),
            enum("word-table", "TestC17WordTable"),
            fuzz("arguments", "FuzzC17Arguments", 45),
        ],
    ),
    "C18": dict(
        technique="differential PBT under the race detector in fresh child processes: every program's trace alone vs its trace when all runners are created (parsed) and driven concurrently behind a start barrier, cold parser caches first",
        level_text="Sets of 2-8 generated programs (flow, random built-ins with explicit and empty seeds, markup lines incl. open replacement markers, numeric built-ins, converting registrations, "
                   "immediate commands, <<wait>> and an asynchronous host command reading its arguments in its own goroutine, storms of 40-160 such commands, a library file shared "
                   "byte for byte as first reader; some programs repeated) are handed to a child process started from the -race test binary: 1-3 rounds in which one goroutine per program creates its "
                   "runner and drives it, all released together while the ANTLR DFA caches are still cold in the first round; afterwards each program is run alone in the "
                   "same process. Traces, error texts, logs and final variables must be identical, and any race detector report or 'fatal error' (concurrent map access) "
                   "in the child is a violation. Each child process starts with a cold-start storm: 12 goroutines create and drive a runner for one script that uses every markup processor, built-in and registration kind, all released together; a quarter of the programs carry text after their last node, and a program that is refused must be refused alone and concurrently alike. More runners than processors meet inside a converted command; every host writes into the property maps of the elements it receives. Search, not proof.",
        level_note="The goroutine scheduler is not owned by the harness: the race detector reports unsynchronised conflicting accesses that executed, whatever their order, "
                   "which is the realistic failure mode (package-level shared state); a race on a path that no generated program executes concurrently stays invisible.",
        rule="set of programs x rounds; non-trivial = at least two distinct programs with overlapping lifetimes; distinct = distinct serialised cases.",
        assumptions=["each runner is used by one goroutine, as the statement requires"],
        subs=[rapid("concurrent", "TestC18Concurrent", 6, 40, race=True, shards=dict(quick=5, thorough=16), shrinktime="60s")],
    ),
    "C19": dict(
        technique="PBT over constructed doubles with exact contract predicates (math/big where float arithmetic could round) + exhaustive sweep of half-way and integer-adjacent values",
        level_text="For doubles |x| < 2^52 built from integers, k+0.5, neighbours of integers (Nextafter), signed zeros, subnormals, k/10^d, random "
                   "sign/exponent/mantissa and known awkward decimals, supplied through the storer and captured exactly by a host function: the stated inequalities for "
                   "floor, ceil, inc, dec, integer, decimal (integer+decimal = x exactly), round (|r-x| <= 0.5 exactly), round_places (|r-x| <= 0.5*10^-n + 4 ulp(x), "
                   "n in 0..8), number(string(x)) == x, bool(string(b)) == b, identity of string/number/bool on their own type, and errors for strings that are neither "
                   "numbers nor booleans. Sweep: every k, k+0.5, k+-ulp for |k| <= 2000 (thorough 100000) and every power of two with neighbours. Every numeric built-in is first called with a string on the same runner; calls nested among the arguments give the same result. Search, not proof. A third of the cases keep three results of each built-in alive at once; a quarter run next to a decoy runner that overrides every built-in.",
        level_note="round_places is given a stated tolerance of 4 ulp(x) on top of half a unit (multiplying by 10^n rounds; measured worst case 1 ulp). Non-convertible strings "
                   "avoid spellings strconv accepts (inf, nan, hex, exponents, 1/t/T/0/f/F).",
        rule="x from ten constructions x n in 0..8 x b x a non-convertible string; non-trivial = x is not an integer; distinct = distinct (x bits, n, b, s).",
        assumptions=["-0 and +0 are equal for number(string(x)) = x (the statement says '=')"],
        subs=[
            rapid("builtins", "TestC19Builtins", 20000, 200000),
            enum("sweep", "TestC19Sweep", env=dict(quick=dict(VERIF_C19_SWEEP=2000), thorough=dict(VERIF_C19_SWEEP=100000))),
        ],
    ),
    "C20": dict(
        technique="model-based stateful PBT (slice model) + exhaustive small-scope enumeration; invariant over generated token streams; native fuzzing",
        level_text="Generated and exhaustively enumerated operation histories against a slice model (every enqueue/dequeue word up to "
                   "length 16 quick / 22 thorough, every head offset at the first three growths, every growth up to 8192 elements from four head offsets, batches the caller overwrites after PushAll), and the INDENT/DEDENT/EOF invariant "
                   "over generated, mutated and fuzzed inputs. Also: the emptied queue used again, queues of 5- and 10-word elements, 5-300 indentation levels open at once, two lexers asked for tokens in turn. Search, not proof: no counterexample among the cases counted in evidence.",
        level_note="Trusts the slice model, the ANTLR runtime's CommonTokenStream and the verif-tag re-exports (no logic). Empty-container "
                   "Dequeue/Peek/Pop (documented panics) are outside the domain.",
        rule="queue/stack: generated operation bursts (rapid) and exhaustive enqueue/dequeue words decided against a slice model, "
             "sizes compared after every step; non-trivial = at least two buffer growths of which one happened with a wrapped head "
             "(stack: depth >= 3 and >= 6 operations). tokens: arbitrary strings, fragment soups, mutated fixtures, random-indentation "
             "bodies and scripts of up to 1100 nested option blocks lexed through the real lexer; non-trivial = at least two INDENT tokens. distinct = distinct serialised cases.",
        assumptions=["Dequeue/Peek/Pop on an empty container are documented to panic and are not called",
                     "token balance is observed through the verif-tag hook that re-exports the lexer constructor"],
        subs=[
            rapid("queue", "TestC20Queue", 5000, 50000),
            rapid("stack", "TestC20Stack", 5000, 50000),
            rapid("tokens", "TestC20Tokens", 5000, 50000),
            enum("queue-words", "TestC20QueueExhaustive", env=dict(quick=dict(VERIF_C20_WORDLEN=16), thorough=dict(VERIF_C20_WORDLEN=22))),
            enum("queue-growth-offsets", "TestC20QueueGrowthOffsets"),
            enum("queue-growth-ladder", "TestC20QueueGrowthLadder"),
            fuzz("tokens", "FuzzC20Tokens", 60),
        ],
    ),
}
