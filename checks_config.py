"""Per-property configuration of the driver: sub-checks, case counts per tier, evidence texts."""


def rapid(name, test, quick, thorough, **kw):
    d = dict(name=name, test=test, kind="rapid", checks=dict(quick=quick, thorough=thorough))
    d.update(kw)
    return d


def enum(name, test, **kw):
    d = dict(name=name, test=test, kind="enum")
    d.update(kw)
    return d


def fuzz(name, test, seconds, **kw):
    d = dict(name=name, test=test, kind="fuzz", tiers=("thorough",), fuzztime=dict(thorough="%ds" % seconds, quick="5s"))
    d.update(kw)
    return d


NOT_CLAIMED = {}

PROPS = {
    "C05": dict(
        technique="PBT + native fuzzing with a differential validity oracle (independent error listeners on the same grammar) and a constructed accept/reject catalogue",
        level_text="Arbitrary bytes, fragment soups, token/line mutations of all repository fixtures, node-boundary and byte-offset reader "
                   "splits and arbitrary seeds are loaded; the outcome must be exactly one of (runner, error), never a panic, and must agree "
                   "with an independent lexer+parser pair carrying the harness's own error listeners; a catalogue of constructed "
                   "valid/invalid scripts pins the expectation independently of the grammar code. Search, not proof.",
        level_note="The validity oracle shares the generated ANTLR grammar with the code under test (the property is stated relative to that grammar); "
                   "the catalogue sub-check is the grammar-independent part. Running the loaded script is C06's business.",
        rule="inputs: arbitrary bytes/strings, fragment soups, random-indentation bodies, 1-3 mutations of fixtures, fixtures split at node "
             "boundaries or random byte offsets over 1-4 readers, seeds from five classes; non-trivial = input with a syntax error that still "
             "contains a '---' body marker, or a valid mutated/split script; distinct = distinct serialised cases.",
        assumptions=["zero readers is not a split and is not generated", "a panicking independent parse counts as invalid"],
        subs=[
            rapid("load", "TestC05Load", 6000, 60000),
            enum("catalogue", "TestC05Catalogue"),
            fuzz("load", "FuzzC05", 120),
        ],
    ),
    "C20": dict(
        technique="model-based stateful PBT (slice model) + exhaustive small-scope enumeration; invariant over generated token streams; native fuzzing",
        level_text="Generated and exhaustively enumerated operation histories against a slice model (every enqueue/dequeue word up to "
                   "length 16 quick / 22 thorough, every head offset at the first three growths), and the INDENT/DEDENT/EOF invariant "
                   "over generated, mutated and fuzzed inputs. Search, not proof: no counterexample among the cases counted in evidence.",
        level_note="Trusts the slice model, the ANTLR runtime's CommonTokenStream and the verif-tag re-exports (no logic). Empty-container "
                   "Dequeue/Peek/Pop (documented panics) are outside the domain.",
        rule="queue/stack: generated operation bursts (rapid) and exhaustive enqueue/dequeue words decided against a slice model, "
             "sizes compared after every step; non-trivial = at least two buffer growths of which one happened with a wrapped head "
             "(stack: depth >= 3 and >= 6 operations). tokens: arbitrary strings, fragment soups, mutated fixtures, random-indentation "
             "bodies lexed through the real lexer; non-trivial = at least two INDENT tokens. distinct = distinct serialised cases.",
        assumptions=["Dequeue/Peek/Pop on an empty container are documented to panic and are not called",
                     "token balance is observed through the verif-tag hook that re-exports the lexer constructor"],
        subs=[
            rapid("queue", "TestC20Queue", 5000, 50000),
            rapid("stack", "TestC20Stack", 5000, 50000),
            rapid("tokens", "TestC20Tokens", 5000, 50000),
            enum("queue-words", "TestC20QueueExhaustive", env=dict(quick=dict(VERIF_C20_WORDLEN=16), thorough=dict(VERIF_C20_WORDLEN=22))),
            enum("queue-growth-offsets", "TestC20QueueGrowthOffsets"),
            fuzz("tokens", "FuzzC20Tokens", 60),
        ],
    ),
}
