//go:build verif

package harness

// C16 — converted host functions/commands: accepted means callable without panics.

import (
	"errors"
	"fmt"
	"math"
	"reflect"
	"sort"
	"strconv"
	"strings"
	"sync"
	"testing"
	"time"

	"github.com/remieven/ysgo"
	"github.com/remieven/ysgo/variable"
	"pgregory.net/rapid"
)

type (
	MyInt   int
	MyInt8  int8
	MyFloat float64
	MyStr   string
	MyBool  bool
	myPair  struct{ A, B int }
	MyErr   struct{ msg string }
	// error-implementing types that are not the error interface: the library accepts them as error results; the
	// statement does not say what a zero value of them means, so only "never panics, runs once" is demanded
	Errno     int
	ErrStruct struct{ Code int }
)

func (e *MyErr) Error() string    { return e.msg }
func (e Errno) Error() string     { return fmt.Sprintf("errno %d", int(e)) }
func (e ErrStruct) Error() string { return fmt.Sprintf("code %d", e.Code) }

var c16Types = map[string]reflect.Type{
	"int": reflect.TypeOf(int(0)), "int8": reflect.TypeOf(int8(0)), "int16": reflect.TypeOf(int16(0)), "int32": reflect.TypeOf(int32(0)), "int64": reflect.TypeOf(int64(0)),
	"uint": reflect.TypeOf(uint(0)), "uint8": reflect.TypeOf(uint8(0)), "float32": reflect.TypeOf(float32(0)), "float64": reflect.TypeOf(float64(0)),
	"bool": reflect.TypeOf(false), "string": reflect.TypeOf(""),
	"MyInt": reflect.TypeOf(MyInt(0)), "MyInt8": reflect.TypeOf(MyInt8(0)), "MyFloat": reflect.TypeOf(MyFloat(0)), "MyStr": reflect.TypeOf(MyStr("")), "MyBool": reflect.TypeOf(MyBool(false)),
	"struct": reflect.TypeOf(myPair{}), "slice": reflect.TypeOf([]int(nil)), "ptr": reflect.TypeOf((*int)(nil)), "iface": reflect.TypeOf((*any)(nil)).Elem(),
	"error": reflect.TypeOf((*error)(nil)).Elem(), "MyErrPtr": reflect.TypeOf((*MyErr)(nil)), "Errno": reflect.TypeOf(Errno(0)), "ErrStruct": reflect.TypeOf(ErrStruct{}),
	"chanerr": reflect.TypeOf((chan error)(nil)), "rchanerr": reflect.TypeOf((<-chan error)(nil)), "chanint": reflect.TypeOf((chan int)(nil)),
	"func": reflect.TypeOf(func() {}),
	// channels the statement's pool does not decide: element types that merely implement error, send-only direction, named channel types
	"chanMyErr": reflect.TypeOf((chan *MyErr)(nil)), "chanErrno": reflect.TypeOf((chan Errno)(nil)), "wchanerr": reflect.TypeOf((chan<- error)(nil)),
	"MyChan": reflect.TypeOf(MyChan(nil)), "MyRChan": reflect.TypeOf(MyRChan(nil)),
	"Level": reflect.TypeOf(Level(0)), "Colour": reflect.TypeOf(Colour("")), "Flag": reflect.TypeOf(Flag(false)), "Duration": reflect.TypeOf(time.Duration(0)),
}

type (
	MyChan  chan error
	MyRChan <-chan error
	// value types of the bridged kinds that also know how to print themselves: they are numbers, booleans and strings all the same
	Level  int
	Colour string
	Flag   bool
)

func (l Level) String() string  { return [...]string{"low", "mid", "high"}[int(l)%3] }
func (c Colour) String() string { return "color(" + string(c) + ")" }
func (f Flag) String() string   { return map[bool]string{true: "set", false: "clear"}[bool(f)] }

func isLooseChan(name string) bool {
	return name == "chanMyErr" || name == "chanErrno" || name == "wchanerr" || name == "MyChan" || name == "MyRChan"
}

var (
	c16Predeclared = []string{"int", "int8", "int16", "int32", "int64", "float32", "float64", "bool", "string"}
	c16Named       = []string{"MyInt", "MyInt8", "MyFloat", "MyStr", "MyBool", "Level", "Colour", "Flag", "Duration"}
	c16DontCare    = []string{"uint", "uint8", "iface"}
	c16BadParam    = []string{"struct", "slice", "ptr", "func", "chanerr", "chanint", "error"}
)

func in(list []string, s string) bool {
	for _, x := range list {
		if x == s {
			return true
		}
	}
	return false
}

type c16Case struct {
	Kind     string   `json:"kind"`              // function, command, nonfunc
	NonFunc  string   `json:"nonfunc,omitempty"` // nil, int, string, struct, slice; nilfunc, nilfunc0, nilfuncerr: nil values of function types
	AsCmd    bool     `json:"ascmd,omitempty"`   // (nonfunc) registered through ConvertAndAddCommand and called as a command
	In       []string `json:"in"`
	Variadic bool     `json:"variadic,omitempty"` // the last parameter is ...T
	Out      []string `json:"out"`
	Fail     bool     `json:"fail,omitempty"` // the host function reports an error (when it can)
	Reenter  bool     `json:"reenter,omitempty"`
	Name     string   `json:"name,omitempty"`    // the name registered and called ("" = probe); may be the name of a built-in
	Prior    bool     `json:"prior,omitempty"`   // a raw handler is registered under the name first: a refused registration leaves it in place
	NilChan  bool     `json:"nilchan,omitempty"` // a channel result is the nil channel (what a handler returns when it forgot to make one)
	Args     []mval   `json:"args"`
}

func (c c16Case) nilChanResult() bool {
	if !c.NilChan {
		return false
	}
	for _, o := range c.Out {
		if t, ok := c16Types[o]; ok && t.Kind() == reflect.Chan {
			return true
		}
	}
	return false
}

func (c c16Case) signature() string {
	if c.Kind == "nonfunc" {
		return "non-function value " + c.NonFunc
	}
	ins := make([]string, len(c.In))
	for i, t := range c.In {
		ins[i] = t
		if c.Variadic && i == len(c.In)-1 {
			ins[i] = "..." + t
		}
	}
	return fmt.Sprintf("%s func(%s) (%s)", c.Kind, strings.Join(ins, ", "), strings.Join(c.Out, ", "))
}

func paramKindClass(name string) byte {
	switch c16Types[name].Kind() {
	case reflect.Int, reflect.Int8, reflect.Int16, reflect.Int32, reflect.Int64, reflect.Uint, reflect.Uint8, reflect.Float32, reflect.Float64:
		return 'n'
	case reflect.Bool:
		return 'b'
	case reflect.String:
		return 's'
	}
	return '?'
}

func isValueType(name string) bool {
	return in(c16Predeclared, name) || in(c16Named, name)
}

func isErrorType(name string) bool { return name == "error" || isLooseErrorType(name) }

func isLooseErrorType(name string) bool {
	return name == "MyErrPtr" || name == "Errno" || name == "ErrStruct"
}

// expectation about registration: "refuse", "accept" or "" (the statement does not decide)
func (c c16Case) registration() string {
	if c.Kind == "nonfunc" {
		if strings.HasPrefix(c.NonFunc, "nilfunc") {
			return "" // a nil value of a function type: refused at registration or an error at the call, never a panic
		}
		return "refuse"
	}
	allPlain := true
	for _, o := range c.Out {
		if isLooseErrorType(o) || isLooseChan(o) {
			return "" // accepted by the library today; the statement's type pool does not decide
		}
	}
	for _, p := range c.In {
		if in(c16BadParam, p) || isLooseErrorType(p) || p == "rchanerr" || isLooseChan(p) {
			return "refuse"
		}
		if !in(c16Predeclared, p) {
			allPlain = false
		}
	}
	legal := false
	switch c.Kind {
	case "function":
		switch len(c.Out) {
		case 0:
			legal = true
		case 1:
			legal = isValueType(c.Out[0]) || isErrorType(c.Out[0])
			if !legal && !in(c16DontCare, c.Out[0]) {
				return "refuse"
			}
		case 2:
			legal = isValueType(c.Out[0]) && isErrorType(c.Out[1])
			if !legal && !(in(c16DontCare, c.Out[0]) && isErrorType(c.Out[1])) {
				return "refuse"
			}
		default:
			return "refuse"
		}
		for _, o := range c.Out {
			if !in(c16Predeclared, o) && o != "error" {
				allPlain = false
			}
		}
	case "command":
		switch len(c.Out) {
		case 0:
			legal = true
		case 1:
			o := c.Out[0]
			legal = isErrorType(o) || o == "chanerr" || o == "rchanerr"
			if !legal && !(isValueType(o) || in(c16DontCare, o)) {
				return "refuse" // struct, slice, ptr, func, chan int
			}
		default:
			return "refuse"
		}
		for _, o := range c.Out {
			if o != "error" && o != "chanerr" && o != "rchanerr" {
				allPlain = false
			}
		}
	}
	if legal && allPlain {
		return "accept"
	}
	return ""
}

var cannedValues = map[string]any{"int": 7, "int8": int8(-8), "int16": int16(16), "int32": int32(32), "int64": int64(64), "uint": uint(3), "uint8": uint8(4), "float32": float32(2.5), "float64": 2.25,
	"bool": true, "string": "res", "MyInt": MyInt(9), "MyInt8": MyInt8(-9), "MyFloat": MyFloat(0.5), "MyStr": MyStr("named"), "MyBool": MyBool(true),
	"Level": Level(2), "Colour": Colour("red"), "Flag": Flag(true), "Duration": 1500 * time.Millisecond}

func cannedMval(name string) mval {
	v := reflect.ValueOf(cannedValues[name])
	switch {
	case v.CanInt():
		return numVal(float64(v.Int()))
	case v.CanUint():
		return numVal(float64(v.Uint()))
	case v.CanFloat():
		return numVal(v.Float())
	case v.Kind() == reflect.Bool:
		return boolVal(v.Bool())
	}
	return strVal(v.String())
}

type c16Probe struct {
	calls [][]string // one entry per invocation: the received arguments, described
	// reenter, when set, is run by the host function while it is being called: it registers more functions and
	// commands on the runner that is calling it (module loaders do that)
	reenter func()
}

func describeReceived(v reflect.Value) string {
	switch {
	case v.CanInt():
		return fmt.Sprintf("%s:%d", v.Type(), v.Int())
	case v.CanUint():
		return fmt.Sprintf("%s:%d", v.Type(), v.Uint())
	case v.CanFloat():
		return fmt.Sprintf("%s:%v", v.Type(), v.Float())
	case v.Kind() == reflect.Bool:
		return fmt.Sprintf("%s:%v", v.Type(), v.Bool())
	case v.Kind() == reflect.String:
		return fmt.Sprintf("%s:%q", v.Type(), v.String())
	}
	return fmt.Sprintf("%s:?", v.Type())
}

// build makes the Go value to register.
func (c c16Case) build(p *c16Probe) any {
	if c.Kind == "nonfunc" {
		switch c.NonFunc {
		case "nil":
			return nil
		case "int":
			return 42
		case "string":
			return "not a function"
		case "struct":
			return myPair{1, 2}
		case "nilfunc":
			return (func(int) int)(nil)
		case "nilfunc0":
			return (func())(nil)
		case "nilfuncerr":
			return (func(string) error)(nil)
		default:
			return []int{1}
		}
	}
	ins := make([]reflect.Type, len(c.In))
	for i, t := range c.In {
		ins[i] = c16Types[t]
		if c.Variadic && i == len(c.In)-1 {
			ins[i] = reflect.SliceOf(c16Types[t])
		}
	}
	outs := make([]reflect.Type, len(c.Out))
	for i, t := range c.Out {
		outs[i] = c16Types[t]
	}
	ft := reflect.FuncOf(ins, outs, c.Variadic)
	fn := reflect.MakeFunc(ft, func(args []reflect.Value) []reflect.Value {
		var got []string
		for i, a := range args {
			if c.Variadic && i == len(args)-1 {
				for j := 0; j < a.Len(); j++ {
					got = append(got, describeReceived(a.Index(j)))
				}
				continue
			}
			got = append(got, describeReceived(a))
		}
		p.calls = append(p.calls, got)
		if p.reenter != nil {
			p.reenter()
		}
		res := make([]reflect.Value, len(c.Out))
		for i, t := range c.Out {
			switch {
			case t == "error":
				res[i] = reflect.Zero(c16Types[t])
				if c.Fail {
					res[i] = reflect.ValueOf(errors.New("boom")).Convert(c16Types[t])
				}
			case t == "MyErrPtr":
				res[i] = reflect.Zero(c16Types[t])
				if c.Fail {
					res[i] = reflect.ValueOf(&MyErr{"boom"})
				}
			case t == "Errno":
				res[i] = reflect.ValueOf(Errno(5))
			case t == "ErrStruct":
				res[i] = reflect.ValueOf(ErrStruct{7})
			case c.NilChan && c16Types[t].Kind() == reflect.Chan:
				res[i] = reflect.Zero(c16Types[t])
			case t == "chanMyErr":
				ch := make(chan *MyErr, 1)
				if c.Fail {
					ch <- &MyErr{"boom"}
				} else {
					ch <- nil
				}
				res[i] = reflect.ValueOf(ch)
			case t == "chanErrno":
				ch := make(chan Errno, 1)
				ch <- Errno(5)
				res[i] = reflect.ValueOf(ch)
			case t == "wchanerr":
				res[i] = reflect.ValueOf((chan<- error)(make(chan error, 1)))
			case t == "chanerr" || t == "rchanerr" || t == "MyChan" || t == "MyRChan":
				ch := make(chan error, 1)
				if c.Fail {
					ch <- errors.New("boom")
				} else {
					ch <- nil
				}
				res[i] = reflect.ValueOf(ch).Convert(c16Types[t])
			case cannedValues[t] != nil:
				res[i] = reflect.ValueOf(cannedValues[t])
			default:
				res[i] = reflect.Zero(c16Types[t])
			}
		}
		return res
	})
	return fn.Interface()
}

// expectedReceived describes what the host function must receive for one script-side argument, or "" when
// several answers are acceptable (fractional number to an integer kind).
func expectedReceived(param string, arg mval) (string, bool) {
	t := c16Types[param]
	switch paramKindClass(param) {
	case 'n':
		switch t.Kind() {
		case reflect.Float64:
			return fmt.Sprintf("%s:%v", t, arg.N), true
		case reflect.Float32:
			return fmt.Sprintf("%s:%v", t, float64(float32(arg.N))), true
		default:
			if arg.N == math.Trunc(arg.N) {
				return fmt.Sprintf("%s:%d", t, int64(arg.N)), true
			}
			return "", false
		}
	case 'b':
		return fmt.Sprintf("%s:%v", t, arg.B), true
	case 's':
		return fmt.Sprintf("%s:%q", t, arg.S), true
	}
	return "", false
}

func scriptArg(v mval, command bool) string {
	switch v.T {
	case 'n':
		return displayNumberCanonical(v.N)
	case 'b':
		if v.B {
			return "true"
		}
		return "false"
	}
	if command {
		return v.S
	}
	return `"` + v.S + `"`
}

func runC16(c c16Case) Verdict {
	for i := range c.Args {
		c.Args[i].fix()
	}
	probe := &c16Probe{}
	value := c.build(probe)
	asValue := c.Kind == "function" && len(c.Out) >= 1 && !isErrorType(c.Out[0])
	args := make([]string, len(c.Args))
	for i, a := range c.Args {
		args[i] = scriptArg(a, c.Kind == "command")
	}
	name := c.Name
	if name == "" {
		name = "probe"
	}
	builtin := name != "probe"
	var stmt string
	switch {
	case c.Kind == "command" || (c.Kind == "nonfunc" && c.AsCmd):
		stmt = strings.TrimSpace("<<"+name+" "+strings.Join(args, " ")) + ">>"
	case asValue:
		stmt = "{cap(" + name + "(" + strings.Join(args, ", ") + "))}"
	default:
		stmt = "<<call " + name + "(" + strings.Join(args, ", ") + ")>>"
	}
	src := "title: Start\n---\n" + stmt + "\nafter\n===\n"
	dr, err := ysgo.NewDialogueRunner(nil, "abc", strings.NewReader(src))
	if err != nil {
		return failf("script does not load: %v\n%s", err, src)
	}
	var captured []mval
	dr.AddFunction("cap", func(a []*variable.Value) (*variable.Value, error) {
		captured = append(captured, toMvals(a)...)
		return variable.NewString(""), nil
	})
	priorCalls := 0
	if c.Prior && c.Kind != "nonfunc" {
		if c.Kind == "command" {
			dr.AddCommand(name, func([]*variable.Value) <-chan error {
				priorCalls++
				ch := make(chan error, 1)
				ch <- nil
				return ch
			})
		} else {
			dr.AddFunction(name, func([]*variable.Value) (*variable.Value, error) {
				priorCalls++
				return variable.NewNumber(-77), nil
			})
		}
	}
	var regErr error
	var panicked any
	func() {
		defer func() { panicked = recover() }()
		if c.Kind == "command" || (c.Kind == "nonfunc" && c.AsCmd) {
			regErr = dr.ConvertAndAddCommand(name, value)
		} else {
			regErr = dr.ConvertAndAddFunction(name, value)
		}
	}()
	sig := c.signature()
	if panicked != nil {
		return failf("registering %s panicked: %v", sig, panicked)
	}
	expect := c.registration()
	if expect == "refuse" && regErr == nil {
		return failf("registering %s must be refused but succeeded", sig)
	}
	if expect == "accept" && regErr != nil {
		return failf("registering %s must succeed but was refused: %v", sig, regErr)
	}
	cls := []string{"kind=" + c.Kind}
	if regErr != nil {
		// a refused registration registers nothing: the script's call is an ordinary "unknown function/command" error
		h := &host{dr: dr, storer: newRecStorer()}
		ev := h.step(0)
		if ev.K == "panic" {
			return failf("registering %s was refused (%v); calling the name afterwards as %s panicked: %s", sig, regErr, stmt, ev.Text)
		}
		if c.Prior && c.Kind != "nonfunc" {
			// the refused registration changed nothing: the handler registered before is still the one that is called
			if priorCalls != 1 || len(probe.calls) != 0 || ev.K == "err" {
				return failf("a handler was registered under %q, then registering %s under the same name was refused (%v): the call %s must still reach the first handler; it ran %d times, the refused one %d times, element %s",
					name, sig, regErr, stmt, priorCalls, len(probe.calls), ev)
			}
			return Verdict{NonTrivial: true, Classes: append(cls, "refused", "earlier-handler-kept")}
		}
		if builtin {
			// the refused registration changed nothing: the built-in is still there
			good := map[string]string{"round": "round(2.4)", "floor": "floor(2.4)", "ceil": "ceil(2.4)", "inc": "inc(2.4)", "dec": "dec(2.4)", "decimal": "decimal(2.5)", "integer": "integer(2.5)",
				"round_places": "round_places(2.44, 1)", "string": "string(1)", "number": "number(\"1\")", "bool": "bool(\"true\")", "dice": "dice(6)", "random": "random()", "random_range": "random_range(1, 2)",
				"visited": "visited(\"Start\")", "visited_count": "visited_count(\"Start\")"}[name]
			src2 := "title: Start\n---\n{" + good + "}\n===\n"
			if c.Kind == "command" {
				src2 = "title: Start\n---\n<<wait 0>>\nwaited\n===\n"
			}
			dr2, err := ysgo.NewDialogueRunner(nil, "abc", strings.NewReader(src2))
			if err != nil {
				return failf("script does not load: %v", err)
			}
			if c.Kind == "command" {
				_ = dr2.ConvertAndAddCommand(name, value)
			} else {
				_ = dr2.ConvertAndAddFunction(name, value)
			}
			h2 := &host{dr: dr2, storer: newRecStorer()}
			h2.drive(nil, nil, 3, false)
			if len(h2.trace) == 0 || h2.trace[0].K != "line" {
				return failf("registering %s under the name of the built-in %q was refused (%v); afterwards the built-in itself no longer works: %s", sig, name, regErr, showTrace(h2.trace))
			}
			return Verdict{NonTrivial: true, Classes: append(cls, "refused", "built-in-kept")}
		}
		if ev.K != "err" {
			return failf("registering %s was refused (%v); calling the name afterwards as %s must be an error, got %s (host function calls: %v)", sig, regErr, stmt, ev, probe.calls)
		}
		return Verdict{NonTrivial: c.Kind != "nonfunc", Classes: append(cls, "refused", "called-after-refusal")}
	}
	cls = append(cls, "accepted")
	if c.Kind == "nonfunc" {
		// only nil values of function types get here: there is nothing to run, so the call is an error - not a panic
		// (for a command the panic would be in the bridge's goroutine and kill the process), not a silent success
		h := &host{dr: dr, storer: newRecStorer()}
		ev := stepTimed(h, 0, 20*time.Second)
		for i := 0; ev.K == "wait" && i < 3000; i++ {
			time.Sleep(time.Millisecond)
			ev = stepTimed(h, 0, 20*time.Second)
		}
		if ev.K != "err" {
			return failf("registering %s was accepted; the call %s must then be an error, got %s", sig, stmt, ev)
		}
		return Verdict{NonTrivial: true, Classes: append(cls, "nil-function-value")}
	}
	// ---- the call
	h := &host{dr: dr, storer: newRecStorer()}
	synchronous := c.Kind == "function" || (len(c.Out) == 1 && (c.Out[0] == "chanerr" || c.Out[0] == "rchanerr"))
	if c.Reenter && synchronous {
		// (handlers that the bridge runs on a goroutine of their own must not touch the runner: not done there)
		probe.reenter = func() {
			dr.AddFunction("late_function", func([]*variable.Value) (*variable.Value, error) { return variable.NewNumber(1), nil })
			dr.AddCommand("late_command", func([]*variable.Value) <-chan error { ch := make(chan error, 1); ch <- nil; return ch })
			_ = dr.ConvertAndAddFunction("late_converted", func(x int) int { return x })
			_ = dr.ConvertAndAddCommand("late_converted_command", func(x int) {})
		}
		cls = append(cls, "registers-during-call")
	}
	desc := fmt.Sprintf("%s called as %s", sig, stmt)
	ev := stepTimed(h, 0, 20*time.Second)
	polls := 30000
	if c.nilChanResult() {
		polls = 300
	}
	for i := 0; ev.K == "wait" && i < polls; i++ { // handlers without a channel run in a goroutine: completion is asynchronous
		time.Sleep(time.Millisecond)
		ev = stepTimed(h, 0, 20*time.Second)
	}
	if ev.K == "hang" {
		return failf("%s: Next did not return within 20 s", desc)
	}
	if ev.K == "panic" {
		return failf("%s: the bridge panicked: %s", desc, ev.Text)
	}
	if ev.K == "wait" && !c.nilChanResult() {
		return failf("%s: the command never completed", desc)
	}
	// does the argument list fit?
	fits := true
	nFixed := len(c.In)
	if c.Variadic {
		nFixed--
	}
	if len(c.Args) < nFixed || (!c.Variadic && len(c.Args) > nFixed) {
		fits = false
	}
	var want []string
	exact := true
	if fits {
		for i, a := range c.Args {
			p := c.In[min(i, len(c.In)-1)]
			if paramKindClass(p) != a.T {
				fits = false
				break
			}
			w, ok := expectedReceived(p, a)
			if !ok {
				exact = false
			}
			want = append(want, w)
		}
	}
	if !fits {
		if ev.K != "err" {
			return failf("%s: the arguments do not fit the signature, the call must be an error, got %s (host function calls: %v)", desc, ev, probe.calls)
		}
		if len(probe.calls) != 0 {
			return failf("%s: the arguments do not fit the signature but the host function ran: %v", desc, probe.calls)
		}
		return Verdict{NonTrivial: true, Classes: append(cls, "argument-mismatch")}
	}
	if len(probe.calls) != 1 {
		return failf("%s: the host function ran %d times, want once (element: %s)", desc, len(probe.calls), ev)
	}
	if priorCalls != 0 {
		return failf("%s: the handler registered earlier under the same name ran %d times although it had been replaced", desc, priorCalls)
	}
	got := probe.calls[0]
	if len(got) != len(want) {
		return failf("%s: the host function received %v, want %v", desc, got, want)
	}
	for i := range want {
		if want[i] == "" { // fractional number to an integer kind: any neighbour integer
			p := c.In[min(i, len(c.In)-1)]
			lo, hi := fmt.Sprintf("%s:%d", c16Types[p], int64(math.Floor(c.Args[i].N))), fmt.Sprintf("%s:%d", c16Types[p], int64(math.Ceil(c.Args[i].N)))
			if got[i] != lo && got[i] != hi {
				return failf("%s: argument %d arrived as %s, want %s or %s", desc, i, got[i], lo, hi)
			}
			continue
		}
		if got[i] != want[i] {
			return failf("%s: argument %d arrived as %s, want %s (all: %v)", desc, i, got[i], want[i], got)
		}
	}
	// result
	if c.nilChanResult() {
		// a nil channel never delivers: an error (what the unit tests pin), going on, or waiting for ever are all
		// defensible; a panic or a Next that blocks (both decided above) are not
		return Verdict{NonTrivial: true, Classes: append(cls, "invoked", "nil-channel-result", "nil-channel-"+ev.K)}
	}
	for _, o := range c.Out {
		if isLooseErrorType(o) || isLooseChan(o) {
			if ev.K != "err" && ev.K != "line" {
				return failf("%s: unexpected outcome %s", desc, ev)
			}
			return Verdict{NonTrivial: true, Classes: append(cls, "invoked", "error-like-result-type")}
		}
	}
	canFail := false
	for _, o := range c.Out {
		if isErrorType(o) || o == "chanerr" || o == "rchanerr" {
			canFail = true
		}
	}
	if c.Fail && canFail {
		if ev.K != "err" || !strings.Contains(ev.Text, "boom") {
			return failf("%s: the host function reported the error \"boom\", the script saw %s", desc, ev)
		}
		cls = append(cls, "error-result")
	} else {
		if ev.K != "line" {
			return failf("%s: expected the call to succeed, got %s", desc, ev)
		}
		if asValue && isValueType(c.Out[0]) {
			if len(captured) != 1 || !sameVal(captured[0], cannedMval(c.Out[0])) {
				return failf("%s: the host function returned %v, the script saw %v", desc, cannedMval(c.Out[0]), captured)
			}
		}
		if !asValue && ev.Text != "after" {
			return failf("%s: the dialogue did not continue after the call: %s", desc, ev)
		}
	}
	named := false
	for _, p := range c.In {
		if in(c16Named, p) {
			named = true
		}
	}
	if named {
		cls = append(cls, "named-parameter")
	}
	if c.Variadic {
		cls = append(cls, "variadic")
	}
	if !exact {
		cls = append(cls, "fractional-to-integer")
	}
	return Verdict{NonTrivial: true, Classes: append(cls, "invoked")}
}

func genC16Arg(t *rapid.T, class byte) mval {
	switch class {
	case 'n':
		return numVal(rapid.SampledFrom([]float64{0, 1, -1, 5, 100, -100, 2.5, -2.5, 0.75, 7}).Draw(t, "n"))
	case 'b':
		return boolVal(rapid.Bool().Draw(t, "b"))
	}
	return strVal(rapid.SampledFrom([]string{"ab", "x", "word", "é"}).Draw(t, "s"))
}

func genC16(t *rapid.T) c16Case {
	kind := rapid.SampledFrom([]string{"function", "function", "command", "command", "nonfunc"}).Draw(t, "kind")
	c := c16Case{Kind: kind, Fail: rapid.IntRange(0, 2).Draw(t, "fail") == 0, Reenter: rapid.IntRange(0, 3).Draw(t, "reenter") == 0, Prior: rapid.IntRange(0, 3).Draw(t, "prior") == 0}
	if rapid.IntRange(0, 3).Draw(t, "builtinname") == 0 {
		// the host may register under the name of a built-in: its function then is the one the script calls
		if kind == "command" {
			c.Name = "wait"
		} else {
			c.Name = rapid.SampledFrom([]string{"round", "floor", "ceil", "inc", "dec", "decimal", "integer", "round_places", "string", "number", "bool", "dice", "random", "random_range", "visited", "visited_count"}).Draw(t, "builtin")
		}
	}
	if kind == "nonfunc" {
		c.NonFunc = rapid.SampledFrom([]string{"nil", "int", "string", "struct", "slice", "nilfunc", "nilfunc0", "nilfuncerr"}).Draw(t, "nonfunc")
		c.AsCmd = rapid.Bool().Draw(t, "ascmd")
		if c.NonFunc == "nilfunc" {
			c.Args = []mval{numVal(5)}
		} else if c.NonFunc == "nilfuncerr" {
			c.Args = []mval{strVal("w")}
		}
		return c
	}
	paramPool := append(append(append([]string{}, c16Predeclared...), c16Named...), c16Predeclared...)
	if rapid.IntRange(0, 5).Draw(t, "odd-params") == 0 {
		paramPool = append(append(paramPool, c16DontCare...), c16BadParam...)
	}
	n := rapid.IntRange(0, 3).Draw(t, "nparams")
	for i := 0; i < n; i++ {
		c.In = append(c.In, rapid.SampledFrom(paramPool).Draw(t, "param"))
	}
	c.Variadic = n > 0 && rapid.IntRange(0, 3).Draw(t, "variadic") == 0
	if kind == "function" {
		c.Out = rapid.SampledFrom([][]string{{}, {"int"}, {"float64"}, {"string"}, {"bool"}, {"error"}, {"int", "error"}, {"string", "error"}, {"MyInt"}, {"MyStr", "error"}, {"MyFloat"}, {"MyBool"},
			{"int8"}, {"float32", "error"}, {"MyErrPtr"}, {"int", "MyErrPtr"}, {"Errno"}, {"string", "Errno"}, {"ErrStruct"}, {"int", "ErrStruct"}, {"struct"}, {"slice"}, {"int", "int"}, {"error", "int"}, {"int", "string", "error"}, {"chanerr"}, {"uint"}, {"iface"}, {"ptr", "error"},
			{"Level"}, {"Colour"}, {"Flag"}, {"Duration"}, {"Level", "error"}, {"Colour", "error"}}).Draw(t, "out")
	} else {
		c.Out = rapid.SampledFrom([][]string{{}, {}, {"error"}, {"error"}, {"chanerr"}, {"rchanerr"}, {"MyErrPtr"}, {"Errno"}, {"ErrStruct"}, {"int"}, {"string"}, {"struct"}, {"chanint"}, {"error", "error"}, {"int", "error"}, {"ptr"}, {"func"},
			{"chanMyErr"}, {"chanErrno"}, {"wchanerr"}, {"MyChan"}, {"MyRChan"}}).Draw(t, "out")
	}
	// script-side arguments: mostly fitting, sometimes off by count or type
	nFixed := len(c.In)
	nargs := nFixed
	if c.Variadic {
		nargs = nFixed - 1 + rapid.IntRange(0, 3).Draw(t, "nvariadic")
	}
	switch rapid.IntRange(0, 7).Draw(t, "count") {
	case 0:
		nargs = max(0, nargs-1)
	case 1:
		nargs++
	}
	nargs = min(nargs, 4)
	for i := 0; i < nargs; i++ {
		class := byte('n')
		if len(c.In) > 0 {
			if k := paramKindClass(c.In[min(i, len(c.In)-1)]); k != '?' {
				class = k
			}
		}
		if rapid.IntRange(0, 7).Draw(t, "wrongtype") == 0 {
			class = rapid.SampledFrom([]byte{'n', 'b', 's'}).Draw(t, "class")
		}
		c.Args = append(c.Args, genC16Arg(t, class))
	}
	for _, o := range c.Out {
		if c16Types[o].Kind() == reflect.Chan {
			c.NilChan = rapid.IntRange(0, 3).Draw(t, "nilchan") == 0
		}
	}
	return c
}

var c16Bridge = Register(Prop[c16Case]{
	ID: "C16", Name: "bridge", Gen: genC16, Run: runC16,
	Render: func(c c16Case) any {
		args := []string{}
		for _, a := range c.Args {
			a.fix()
			args = append(args, a.String())
		}
		return map[string]any{"signature": c.signature(), "script_arguments": args, "host_reports_error": c.Fail}
	},
})

func TestC16Bridge(t *testing.T) { Check(t, c16Bridge) }

// Exhaustive over the type pool for arity <= 2 (each with fitting arguments) and all pooled result shapes.
var c16Table = Register(Prop[c16Case]{ID: "C16", Name: "signature-table", Run: runC16, Render: c16Bridge.Render})

func TestC16SignatureTable(t *testing.T) {
	pool := append(append(append(append([]string{}, c16Predeclared...), c16Named...), c16DontCare...), c16BadParam...)
	Enumerate(t, c16Table, true, "every parameter list of length 0-2 over the whole type pool (plus a variadic tail of each type), with fitting arguments, for functions returning (T, error) and commands returning error; every non-function value",
		func(yield func(c16Case) bool) {
			fit := func(p string) mval {
				switch paramKindClass(p) {
				case 'b':
					return boolVal(true)
				case 's':
					return strVal("w")
				}
				return numVal(5)
			}
			for _, nf := range []string{"nil", "int", "string", "struct", "slice", "nilfunc", "nilfunc0", "nilfuncerr"} {
				for _, kind := range []string{"function", "command"} {
					c := c16Case{Kind: "nonfunc", NonFunc: nf, AsCmd: kind == "command"}
					if nf == "nilfunc" {
						c.Args = []mval{numVal(5)}
					} else if nf == "nilfuncerr" {
						c.Args = []mval{strVal("w")}
					}
					if !yield(c) {
						return
					}
				}
			}
			var lists [][]string
			lists = append(lists, []string{})
			for _, a := range pool {
				lists = append(lists, []string{a})
				for _, b := range pool {
					lists = append(lists, []string{a, b})
				}
			}
			for _, in := range lists {
				for _, variadic := range []bool{false, true} {
					if variadic && len(in) == 0 {
						continue
					}
					var args []mval
					for _, p := range in {
						args = append(args, fit(p))
					}
					if variadic {
						args = append(args, fit(in[len(in)-1]))
					}
					for _, shape := range []struct {
						kind string
						out  []string
					}{{"function", []string{"int", "error"}}, {"function", []string{"MyStr"}}, {"command", []string{"error"}}, {"command", []string{}}, {"command", []string{"chanerr"}},
						{"command", []string{"chanMyErr"}}, {"command", []string{"MyRChan"}}, {"command", []string{"wchanerr"}}} {
						if !yield(c16Case{Kind: shape.kind, In: in, Variadic: variadic, Out: shape.out, Args: args}) {
							return
						}
					}
				}
			}
		})
}

// ---------------------------------------------------------------------------------------
// one conversion rule: whichever way fractional numbers become integers of the declared kind (the statement does not
// say; Go's own conversion truncates), it is one rule - the same for 0.75 as for a value an ulp below a whole number

type c16ModeCase struct {
	Kind   string    `json:"kind"` // int, int8, int16, int32, int64, MyInt
	Values []float64 `json:"values"`
}

var c16Modes = map[string]func(float64) float64{
	"truncation":                math.Trunc,
	"floor":                     math.Floor,
	"ceiling":                   math.Ceil,
	"nearest, ties away from 0": math.Round,
	"nearest, ties to even":     math.RoundToEven,
	"nearest, ties up":          func(f float64) float64 { return math.Floor(f + 0.5) },
}

func runC16Mode(c c16ModeCase) Verdict {
	var received []int64
	ft := reflect.FuncOf([]reflect.Type{reflect.SliceOf(c16Types[c.Kind])}, nil, true)
	fn := reflect.MakeFunc(ft, func(args []reflect.Value) []reflect.Value {
		for j := 0; j < args[0].Len(); j++ {
			received = append(received, args[0].Index(j).Int())
		}
		return nil
	})
	args := make([]string, len(c.Values))
	for i, v := range c.Values {
		if v < 0 {
			args[i] = "-" + strconv.FormatFloat(-v, 'f', -1, 64)
		} else {
			args[i] = strconv.FormatFloat(v, 'f', -1, 64)
		}
	}
	src := "title: Start\n---\n<<call probe(" + strings.Join(args, ", ") + ")>>\nafter\n===\n"
	dr, err := ysgo.NewDialogueRunner(nil, "abc", strings.NewReader(src))
	if err != nil {
		return failf("script does not load: %v\n%s", err, src)
	}
	if err := dr.ConvertAndAddFunction("probe", fn.Interface()); err != nil {
		return failf("registering func(...%s) failed: %v", c.Kind, err)
	}
	h := &host{dr: dr, storer: newRecStorer()}
	ev := stepTimed(h, 0, 20*time.Second)
	if ev.K == "err" {
		return Verdict{Discard: "the library refuses fractional numbers for integer parameters (allowed)"}
	}
	if ev.K != "line" || len(received) != len(c.Values) {
		return failf("func(...%s) called with %v: unexpected element %s, received %v", c.Kind, args, ev, received)
	}
	var fitting []string
	for name, mode := range c16Modes {
		ok := true
		for i, v := range c.Values {
			if float64(received[i]) != mode(v) {
				ok = false
			}
		}
		if ok {
			fitting = append(fitting, name)
		}
	}
	if len(fitting) == 0 {
		return failf("func(...%s) called with %v received %v: no single conversion rule (truncation, floor, ceiling, nearest with any tie rule) explains all of them", c.Kind, args, received)
	}
	nearWhole := false
	for _, v := range c.Values {
		if v != math.Trunc(v) && (math.Nextafter(v, math.Inf(1)) == math.Ceil(v) || math.Nextafter(v, math.Inf(-1)) == math.Floor(v) || math.Abs(v-math.Round(v)) < 1e-12) {
			nearWhole = true
		}
	}
	return Verdict{NonTrivial: nearWhole, Classes: []string{"kind=" + c.Kind}}
}

var c16Mode = Register(Prop[c16ModeCase]{
	ID: "C16", Name: "conversion-rule",
	Gen: func(t *rapid.T) c16ModeCase {
		c := c16ModeCase{Kind: rapid.SampledFrom([]string{"int", "int8", "int16", "int32", "int64", "MyInt"}).Draw(t, "kind")}
		plain := []float64{0.75, -0.75, 0.25, -0.25, 1.5, 2.5, -2.5, 3.5, 99.5, 0.5, -0.5, 12.34, -7.89}
		// a few ulps from a whole number, on either side (0.57*100, 0.29*100, 4.35*100, ...)
		near := []float64{0.57 * 100, 0.29 * 100, -4.35 * 100 / 10, 1.1 * 3 * 10, 126.99999999999999, 28.999999999999996, 57.00000000000001, -56.99999999999999, 0.9999999999999999, 1.0000000000000002, -0.9999999999999999, 99.99999999999999}
		n := rapid.IntRange(3, 6).Draw(t, "n")
		for i := 0; i < n; i++ {
			pool := plain
			if i%2 == 1 || rapid.Bool().Draw(t, "near") {
				pool = near
			}
			v := rapid.SampledFrom(pool).Draw(t, "v")
			if rapid.IntRange(0, 4).Draw(t, "ulps") == 0 {
				v = math.Nextafter(math.Round(v), rapid.SampledFrom([]float64{math.Inf(1), math.Inf(-1)}).Draw(t, "side"))
			}
			c.Values = append(c.Values, v)
		}
		c.Values = append(c.Values, rapid.SampledFrom(plain).Draw(t, "plain"))
		return c
	},
	Run: runC16Mode,
})

func TestC16ConversionRule(t *testing.T) { Check(t, c16Mode) }

// ---------------------------------------------------------------------------------------
// parameter types that print alike: types declared inside functions (or in packages of the same name) have the same
// String() although they are different types of different kinds. Each handler gets its arguments converted to its own.

func registerAmountAsInt(dr *ysgo.DialogueRunner, name string, got *[]string) error {
	type Amount int
	return dr.ConvertAndAddCommand(name, func(a Amount) { *got = append(*got, fmt.Sprintf("%s int-kind %d", name, int(a))) })
}

func registerAmountAsFloat(dr *ysgo.DialogueRunner, name string, got *[]string) error {
	type Amount float64
	return dr.ConvertAndAddCommand(name, func(a Amount) { *got = append(*got, fmt.Sprintf("%s float-kind %v", name, float64(a))) })
}

func registerAmountAsString(dr *ysgo.DialogueRunner, name string, got *[]string) error {
	type Amount string
	return dr.ConvertAndAddCommand(name, func(a Amount) { *got = append(*got, fmt.Sprintf("%s string-kind %q", name, string(a))) })
}

type c16AlikeCase struct {
	Order []int `json:"order"` // the order in which the three handlers are registered
}

func runC16Alike(c c16AlikeCase) Verdict {
	src := "title: Start\n---\n<<asint 7>>\n<<asfloat 0.75>>\n<<asstring word>>\n<<asfloat {1 / 4}>>\nend\n===\n"
	dr, err := ysgo.NewDialogueRunner(nil, "abc", strings.NewReader(src))
	if err != nil {
		return failf("script does not load: %v", err)
	}
	var mu sync.Mutex
	var got []string
	regs := []func() error{
		func() error { return registerAmountAsInt(dr, "asint", &got) },
		func() error { return registerAmountAsFloat(dr, "asfloat", &got) },
		func() error { return registerAmountAsString(dr, "asstring", &got) },
	}
	for _, i := range c.Order {
		if err := regs[i](); err != nil {
			return failf("registration %d failed: %v", i, err)
		}
	}
	_ = &mu
	h := &host{dr: dr, storer: newRecStorer()}
	h.drive(nil, nil, 10, false)
	time.Sleep(5 * time.Millisecond)
	if n := len(h.trace); n < 2 || h.trace[0].K != "line" || h.trace[0].Text != "end" {
		return failf("handlers whose parameter types are all called Amount (int, float64 and string kinds, declared in three functions), registered in the order %v: unexpected trace %s (received: %v)", c.Order, strings.ReplaceAll(showTrace(h.trace), "\n", " / "), got)
	}
	want := []string{"asint int-kind 7", "asfloat float-kind 0.75", `asstring string-kind "word"`, "asfloat float-kind 0.25"}
	sort.Strings(want)
	sorted := append([]string{}, got...)
	sort.Strings(sorted)
	if strings.Join(sorted, "; ") != strings.Join(want, "; ") {
		return failf("handlers whose parameter types are all called Amount (int, float64 and string kinds), registered in the order %v, received %v, want %v", c.Order, got, want)
	}
	return Verdict{NonTrivial: true}
}

var c16Alike = Register(Prop[c16AlikeCase]{ID: "C16", Name: "types-that-print-alike", Run: runC16Alike})

func TestC16TypesThatPrintAlike(t *testing.T) {
	Enumerate(t, c16Alike, true, "three converted commands whose parameter types are function-local types all named Amount, of int, float64 and string kind, registered in each of the 6 orders", func(yield func(c16AlikeCase) bool) {
		for _, o := range [][]int{{0, 1, 2}, {0, 2, 1}, {1, 0, 2}, {1, 2, 0}, {2, 0, 1}, {2, 1, 0}} {
			if !yield(c16AlikeCase{Order: o}) {
				return
			}
		}
	})
}
