//go:build verif

package harness

import (
	"os"
	"path/filepath"
	"sort"
	"strings"
	"sync"

	"pgregory.net/rapid"
)

// repoDir is the tree under test (the driver sets VERIF_REPO; the go.mod replace points at the same place).
func repoDir() string {
	if d := os.Getenv("VERIF_REPO"); d != "" {
		return d
	}
	return "/repo"
}

var (
	fixturesOnce sync.Once
	fixtures     []string
)

// loadFixtures returns the .yarn files shipped with the repository (sorted by path: deterministic).
func loadFixtures() []string {
	fixturesOnce.Do(func() {
		var paths []string
		for _, pat := range []string{"testdata/*.yarn", "internal/tree/testdata/*.yarn"} {
			m, _ := filepath.Glob(filepath.Join(repoDir(), pat))
			paths = append(paths, m...)
		}
		sort.Strings(paths)
		for _, p := range paths {
			if b, err := os.ReadFile(p); err == nil {
				fixtures = append(fixtures, string(b))
			}
		}
	})
	return fixtures
}

// hostileFragments are pieces of syntax that tend to confuse the lexer modes when inserted anywhere.
var hostileFragments = []string{
	"<<", ">>", "{", "}", "===", "---", "->", "#", "\\", "<<if ", "<<endif>>", "<<else>>", "<<elseif ", "null", "(", ")", "\"",
	"\r", "\n", "\r\n", " \t", "\t", "    ", "\t\t", "//", "<<set $x to ", "<<jump ", "<<declare $x = ", "<<call ", "<<stop>>",
	"title: ", "title: X\n---\n", "\n===\n", "$x", "[", "]", "<", ">", "/", ":", "true", "1.5", "é", "日本", "\x00", "\xff", "<<enum ", "<<case ",
	"<<local ", "<<endenum>>", "-> opt\n", "    -> opt\n        deep\n", " #tag", "{1+", "{$x}", "\\{", "\\#", ",", " as string", "<<wait 0>>",
	"\ufeff", "\u200b", "\u00a0", "\u0085", "\u2028", "9223372036854775808", "\v", "\f",
}

var miniScripts = []string{
	"title: A\n---\nhello\n===\n",
	"title: A\n---\n-> one\n    first\n-> two\n    second\nafter\n===\n",
	"title: A\n---\n<<if true>>\n    x\n<<elseif false>>\n    y\n<<else>>\n    z\n<<endif>>\n===\n",
	"title: A\ntracking: always\n---\n<<set $x to 1 + 2 * 3>>\n{$x} #tag\n<<jump B>>\n===\ntitle: B\n---\n<<stop>>\n===\n",
	"title: A\n---\n-> a <<if $x>> #t\n\t-> b\n\t\tdeep\n\tback\nend\n===\n",
	"title: A\n---\n<<declare $n = 3>>\n<<call f(1, \"s\", true)>>\n<<cmd a {1+1} b>>\n===\n",
}

// genBaseScript picks a valid script: a fixture, a mini script or (later) a generated one.
func genBaseScript(t *rapid.T) string {
	fx := loadFixtures()
	n := len(fx) + len(miniScripts)
	i := rapid.IntRange(0, n-1).Draw(t, "base")
	if i < len(fx) {
		return fx[i]
	}
	return miniScripts[i-len(fx)]
}

// mutateText applies k token-/line-level mutations to s.
func mutateText(t *rapid.T, s string, k int) string {
	for i := 0; i < k; i++ {
		switch rapid.IntRange(0, 7).Draw(t, "mut") {
		case 0: // insert a hostile fragment at a random offset
			off := rapid.IntRange(0, len(s)).Draw(t, "off")
			frag := rapid.SampledFrom(hostileFragments).Draw(t, "frag")
			s = s[:off] + frag + s[off:]
		case 1: // truncate
			off := rapid.IntRange(0, len(s)).Draw(t, "off")
			s = s[:off]
		case 2: // delete a span
			if len(s) > 0 {
				a := rapid.IntRange(0, len(s)-1).Draw(t, "a")
				l := rapid.IntRange(1, 12).Draw(t, "l")
				b := min(len(s), a+l)
				s = s[:a] + s[b:]
			}
		case 3: // delete a line
			lines := strings.SplitAfter(s, "\n")
			if len(lines) > 1 {
				j := rapid.IntRange(0, len(lines)-1).Draw(t, "line")
				lines = append(lines[:j:j], lines[j+1:]...)
				s = strings.Join(lines, "")
			}
		case 4: // duplicate a line
			lines := strings.SplitAfter(s, "\n")
			j := rapid.IntRange(0, len(lines)-1).Draw(t, "line")
			lines = append(lines[:j+1:j+1], lines[j:]...)
			s = strings.Join(lines, "")
		case 5: // swap two lines
			lines := strings.SplitAfter(s, "\n")
			if len(lines) > 1 {
				a := rapid.IntRange(0, len(lines)-1).Draw(t, "la")
				b := rapid.IntRange(0, len(lines)-1).Draw(t, "lb")
				lines[a], lines[b] = lines[b], lines[a]
				s = strings.Join(lines, "")
			}
		case 6: // re-indent one line with a random mixture
			lines := strings.SplitAfter(s, "\n")
			j := rapid.IntRange(0, len(lines)-1).Draw(t, "line")
			ind := rapid.SampledFrom([]string{"", " ", "  ", "    ", "\t", "\t\t", " \t", "\t ", "        ", "   "}).Draw(t, "indent")
			lines[j] = ind + strings.TrimLeft(lines[j], " \t")
			s = strings.Join(lines, "")
		case 7: // replace one byte
			if len(s) > 0 {
				a := rapid.IntRange(0, len(s)-1).Draw(t, "a")
				b := rapid.Byte().Draw(t, "byte")
				s = s[:a] + string([]byte{b}) + s[a+1:]
			}
		}
	}
	return s
}

// genFragmentSoup assembles a string from hostile fragments, words and newlines.
func genFragmentSoup(t *rapid.T, maxParts int) string {
	n := rapid.IntRange(0, maxParts).Draw(t, "parts")
	var b strings.Builder
	for i := 0; i < n; i++ {
		switch rapid.IntRange(0, 3).Draw(t, "kind") {
		case 0, 1:
			b.WriteString(rapid.SampledFrom(hostileFragments).Draw(t, "frag"))
		case 2:
			b.WriteString(rapid.StringMatching(`[a-z]{1,6}`).Draw(t, "word"))
		case 3:
			b.WriteString(rapid.SampledFrom([]string{"\n", "\n    ", "\n\t", " "}).Draw(t, "ws"))
		}
	}
	return b.String()
}

func sortStrings(s []string) { sort.Strings(s) }
