//go:build verif

package harness

// C08 — layout never changes meaning (indent width, blank lines, comments, spellings).

import (
	"fmt"
	"io"
	"reflect"
	"sort"
	"strings"
	"testing"

	"github.com/remieven/ysgo"
	"pgregory.net/rapid"
)

type c08Case struct {
	Script  *Script         `json:"script"`
	Vars    map[string]mval `json:"vars"`
	Layout  Layout          `json:"layout"`
	Choices [][]int         `json:"choices"`
}

func joinFiles(srcs []string) string { return strings.Join(srcs, "\n-- next reader --\n") }

func runC08(c c08Case) Verdict {
	canon := renderCanonical(c.Script)
	lay := c.Layout
	alt := renderScript(c.Script, &lay)
	used := lay.used
	ctx := func() string {
		return fmt.Sprintf("\ncanonical layout:\n%s\nother layout (%q):\n%s", joinFiles(canon), usedKinds(used), strings.ReplaceAll(joinFiles(alt), "\r", "\\r"))
	}
	t1, err1 := ysgo.VerifFromReaders(readers(canon)...)
	t2, err2 := ysgo.VerifFromReaders(readers(alt)...)
	if err1 != nil {
		return failf("the canonical rendering does not load: %v%s", err1, ctx())
	}
	if err2 != nil {
		return failf("the same program in another layout does not load: %v%s", err2, ctx())
	}
	if !lay.TextBlanks && !reflect.DeepEqual(t1, t2) {
		return failf("the parsed dialogues of two layouts of one program differ: %s%s", firstTreeDifference(t1, t2), ctx())
	}
	// the distribution of nodes over readers is layout too: everything in one reader (file hashtags can only stand at the
	// start of a file: they stay with the first one)
	laterFileTags := false
	for i := 1; i < len(c.Script.FileTags); i++ {
		laterFileTags = laterFileTags || len(c.Script.FileTags[i]) > 0
	}
	if len(canon) > 1 && !laterFileTags {
		t3, err3 := ysgo.VerifFromReaders(strings.NewReader(strings.Join(canon, "")))
		if err3 != nil || !reflect.DeepEqual(t1, t3) {
			return failf("the same nodes in a single reader give another dialogue (err=%v)%s", err3, ctx())
		}
	}
	// ... and so is the way the host cuts one stream into readers: consecutive windows on a single stream (each reader
	// must be read to its end before the next one is touched) load like separate readers
	if len(alt) > 1 {
		stream := strings.NewReader(strings.Join(alt, ""))
		windows := make([]io.Reader, len(alt))
		for i, f := range alt {
			windows[i] = io.LimitReader(stream, int64(len(f)))
		}
		windows[len(alt)-1] = stream
		t4, err4 := ysgo.VerifFromReaders(windows...)
		if err4 != nil || !reflect.DeepEqual(t2, t4) {
			return failf("the same files read as consecutive windows on one stream give another dialogue (err=%v)%s", err4, ctx())
		}
	}
	// traces
	elements := 0
	for _, choices := range c.Choices {
		m := newInterp(c.Script, c.Vars, choices, flowMaxEv)
		m.stopAtErr = true
		m.run()
		if m.diverged {
			return Verdict{Discard: "script runs more than 300 statements without yielding"}
		}
		h1, e1 := newHost(canon, "abc", c.Vars)
		h2, e2 := newHost(alt, "abc", c.Vars)
		if e1 != nil || e2 != nil {
			return failf("loading through the runner fails: %v / %v%s", e1, e2, ctx())
		}
		// what the markup of every returned line and option says (attributes with their ranges) belongs to the element
		var attrs1, attrs2 []string
		h1.onElement = func(el *ysgo.DialogueElement) { attrs1 = append(attrs1, describeAttributes(el)) }
		h2.onElement = func(el *ysgo.DialogueElement) { attrs2 = append(attrs2, describeAttributes(el)) }
		h1.drive(choices, nil, flowMaxEv, true)
		h2.drive(choices, nil, flowMaxEv, true)
		for i := range attrs1 {
			if i < len(attrs2) && attrs1[i] != attrs2[i] {
				return failf("two layouts of one program give different markup attributes for element %d (canonical vs other) for choices %v: %s vs %s%s", i, choices, attrs1[i], attrs2[i], ctx())
			}
		}
		if d := diffTraces(h1.trace, h2.trace); d != "" {
			return failf("two layouts of one program give different traces (canonical vs other) for choices %v: %s%s", choices, d, ctx())
		}
		if strings.Join(h1.fnLog, ";") != strings.Join(h2.fnLog, ";") || strings.Join(h1.cmdLog, ";") != strings.Join(h2.cmdLog, ";") {
			return failf("two layouts of one program call host functions/commands differently: %v %v vs %v %v%s", h1.fnLog, h1.cmdLog, h2.fnLog, h2.cmdLog, ctx())
		}
		elements += len(h1.trace)
	}
	kinds := usedKinds(used)
	cls := []string{}
	for _, k := range kinds {
		cls = append(cls, "layout="+k)
	}
	switch {
	case c.Layout.Unit == 0:
		cls = append(cls, "indent=tabs")
	case c.Layout.Unit < 0:
		cls = append(cls, "indent=varied")
	default:
		cls = append(cls, fmt.Sprintf("indent=%d", c.Layout.Unit))
	}
	if c.Layout.CRLF {
		cls = append(cls, "crlf")
	}
	if c.Layout.FlatIf {
		cls = append(cls, "flat-if")
	}
	dims := len(kinds)
	if c.Layout.Unit != 4 {
		dims++
	}
	if c.Layout.CRLF {
		dims++
	}
	noiseInBody := false
	for _, k := range kinds {
		if strings.HasPrefix(k, "blank-line") || strings.HasPrefix(k, "comment-line") || k == "whitespace-only-line" {
			noiseInBody = true
		}
	}
	return Verdict{NonTrivial: dims >= 2 && noiseInBody && elements >= 3, Classes: cls}
}

// describeAttributes renders the attributes of an element's line(s): name, range, properties, in a canonical order.
func describeAttributes(el *ysgo.DialogueElement) string {
	one := func(l *ysgo.Line) string {
		if l == nil {
			return "-"
		}
		var out []string
		for _, a := range l.Attributes {
			var props []string
			for k, v := range a.Properties {
				props = append(props, fmt.Sprintf("%s=%v", k, v))
			}
			sort.Strings(props)
			out = append(out, fmt.Sprintf("%s@%d+%d%v", a.Name, a.Position, a.Length, props))
		}
		sort.Strings(out)
		return fmt.Sprint(out)
	}
	s := one(el.Line)
	for _, o := range el.Options {
		s += " | " + one(o.Line)
	}
	return s
}

func usedKinds(used map[string]int) []string {
	var out []string
	for k := range used {
		switch k {
		case "noise", "trailing":
			continue
		}
		out = append(out, k)
	}
	sort.Strings(out)
	return out
}

// firstTreeDifference describes where two dialogues differ (node and statement index), for readable failures.
func firstTreeDifference(a, b any) string {
	va, vb := reflect.ValueOf(a).Elem().FieldByName("Nodes"), reflect.ValueOf(b).Elem().FieldByName("Nodes")
	if va.Len() != vb.Len() {
		return fmt.Sprintf("%d nodes vs %d nodes", va.Len(), vb.Len())
	}
	for i := 0; i < va.Len(); i++ {
		na, nb := va.Index(i), vb.Index(i)
		if !reflect.DeepEqual(na.FieldByName("Headers").Interface(), nb.FieldByName("Headers").Interface()) {
			return fmt.Sprintf("headers of node %d differ: %v vs %v", i, na.FieldByName("Headers").Interface(), nb.FieldByName("Headers").Interface())
		}
		sa, sb := na.FieldByName("Statements"), nb.FieldByName("Statements")
		if sa.Len() != sb.Len() {
			return fmt.Sprintf("node %d has %d top-level statements vs %d", i, sa.Len(), sb.Len())
		}
		for j := 0; j < sa.Len(); j++ {
			if !reflect.DeepEqual(sa.Index(j).Interface(), sb.Index(j).Interface()) {
				return fmt.Sprintf("top-level statement %d of node %d differs", j, i)
			}
		}
	}
	return "(difference not located)"
}

var c08Layout = Register(Prop[c08Case]{
	ID: "C08", Name: "layouts",
	Gen: func(t *rapid.T) c08Case {
		f := genFlowCase(t, scriptOpts{maxNodes: 4, maxDepth: 4, maxBody: 4, tracking: true})
		c := c08Case{Script: f.Script, Vars: f.Vars, Layout: genLayout(t)}
		if rapid.IntRange(0, 5).Draw(t, "align") == 0 {
			// one statement with multi-byte text in every file, moved across a block boundary by a comment line in front of it
			c.Layout.AlignBlock = rapid.SampledFrom([]int{512, 4096, 4096, 8192, 32768, 32768, 65536, 1 << 20, 4 << 20}).Draw(t, "block")
			c.Layout.AlignSplit = rapid.IntRange(0, 1).Draw(t, "split")
			c.Layout.LongNoise = 0
			for _, file := range c.Script.Files {
				n := file[rapid.IntRange(0, len(file)-1).Draw(t, "node")]
				at := rapid.IntRange(0, len(n.Body)).Draw(t, "at")
				stmt := &Stmt{K: "line", Text: []TextPart{{S: "Die Tür öffnet sich 日本語 "}, {E: varRef("k1")}}, Tags: []string{"geräusch"}}
				n.Body = append(n.Body[:at:at], append([]*Stmt{stmt}, n.Body[at:]...)...)
			}
		}
		c.Layout.TextBlanks = rapid.IntRange(0, 3).Draw(t, "textblanks") == 0
		if rapid.IntRange(0, 2).Draw(t, "speakers") == 0 {
			// lines that are (or start with) a speaker prefix: the character attribute belongs to what the element shows
			for _, file := range c.Script.Files {
				n := file[rapid.IntRange(0, len(file)-1).Draw(t, "speakernode")]
				at := rapid.IntRange(0, len(n.Body)).Draw(t, "speakerat")
				text := rapid.SampledFrom([]string{"Guard:", "José:", "Guard: halt", "日本:", "Mr Smith: [b]well[/b]", "Guard: [wave/]"}).Draw(t, "speaker")
				n.Body = append(n.Body[:at:at], append([]*Stmt{{K: "line", Text: []TextPart{{S: text}}}}, n.Body[at:]...)...)
			}
		}
		for i := 0; i < 2; i++ {
			c.Choices = append(c.Choices, genChoices(t))
		}
		return c
	},
	Run: runC08,
	Minimize: func(c c08Case, stillFails func(c08Case) bool) c08Case {
		c.Script = minimizeScript(c.Script, func(s *Script) bool { cc := c; cc.Script = s; return stillFails(cc) })
		// back to canonical, decision by decision
		for i := range c.Layout.Tape {
			if c.Layout.Tape[i] == 0 {
				continue
			}
			cc := c
			cc.Layout.Tape = append([]uint8{}, c.Layout.Tape...)
			cc.Layout.Tape[i] = 0
			if stillFails(cc) {
				c = cc
			}
		}
		for len(c.Layout.Tape) > 0 && c.Layout.Tape[len(c.Layout.Tape)-1] == 0 {
			c.Layout.Tape = c.Layout.Tape[:len(c.Layout.Tape)-1]
		}
		for _, f := range []func(*c08Case){func(x *c08Case) { x.Layout.Unit = 4 }, func(x *c08Case) { x.Layout.CRLF = false }, func(x *c08Case) { x.Layout.FlatIf = false }, func(x *c08Case) { x.Layout.NoFinalNL = false }, func(x *c08Case) { x.Layout.TextBlanks = false }, func(x *c08Case) { x.Choices = x.Choices[:1] }} {
			cc := c
			f(&cc)
			if stillFails(cc) {
				c = cc
			}
		}
		return c
	},
	Render: func(c c08Case) any {
		lay := c.Layout
		return map[string]any{"layout": map[string]any{"unit": c.Layout.Unit, "crlf": c.Layout.CRLF, "flat_if": c.Layout.FlatIf}, "files": renderScript(c.Script, &lay), "choices": c.Choices}
	},
})

func TestC08Layouts(t *testing.T) { Check(t, c08Layout) }
