//go:build verif

package harness

// C11 — visited / visited_count count completed visits of tracked nodes only.
// C12 — end of dialogue is absorbing.

import (
	"fmt"
	"sort"
	"strings"
	"testing"

	"github.com/remieven/ysgo"
	"github.com/remieven/ysgo/variable"
	"pgregory.net/rapid"
)

// ---------------------------------------------------------------------------------------
// C11

func showCounts(m map[string]int) string {
	keys := make([]string, 0, len(m))
	for k, v := range m {
		if v != 0 {
			keys = append(keys, fmt.Sprintf("%s=%d", k, v))
		}
	}
	sort.Strings(keys)
	return "{" + strings.Join(keys, " ") + "}"
}

func sameCounts(a, b map[string]int) bool {
	for k, v := range a {
		if b[k] != v {
			return false
		}
	}
	for k, v := range b {
		if a[k] != v {
			return false
		}
	}
	return true
}

// c11Restore: after some elements a hand-made snapshot (any node, any visit counts, the current variables) is restored.
type c11Restore struct {
	After  int            `json:"after"`
	Node   string         `json:"node"`
	Visits map[string]int `json:"visits"`
}

type c11Case struct {
	flowCase
	Restore *c11Restore `json:"restore,omitempty"`
}

func compareVisits(c flowCase) (Verdict, *interp) { return compareVisitsRestore(c11Case{flowCase: c}) }

func compareVisitsRestore(c c11Case) (Verdict, *interp) {
	srcs := renderCanonical(c.Script)
	script := strings.Join(srcs, "\n-- next reader --\n")
	h, err := newHost(srcs, "abc", c.Vars)
	if err != nil {
		return failf("generated script does not load: %v\n%s", err, script), nil
	}
	limit := flowMaxEv
	if c.Restore != nil {
		limit = max(1, min(c.Restore.After, flowMaxEv))
	}
	m := newInterp(c.Script, c.Vars, c.Choices, limit)
	m.run()
	if m.diverged {
		return Verdict{Discard: "script runs more than 300 statements without yielding"}, m
	}
	prev := map[string]int{}
	phase := func(m *interp, what string) *Verdict {
		nchoice := 0
		h.lastOpt = 0
		for i := 0; i < len(m.trace); i++ {
			arg := 0
			if h.lastOpt > 0 {
				if len(c.Choices) > 0 {
					arg = c.Choices[nchoice%len(c.Choices)]
				}
				nchoice++
				arg = ((arg % h.lastOpt) + h.lastOpt) % h.lastOpt
			}
			ev := h.step(arg)
			if ev.K == "panic" {
				v := failf("Next panicked at element %d%s: %s\nscript:\n%s", i, what, ev.Text, script)
				return &v
			}
			if !sameEv(m.trace[i], ev) {
				v := failf("element %d%s (rendered visited/visited_count values included) differs:\n  want %s\n  got  %s\nscript:\n%s\nchoices %v\nexpected visit counts at that point: %s",
					i, what, m.trace[i], ev, script, c.Choices, showCounts(m.visitLog[i]))
				return &v
			}
			got := map[string]int{}
			for k, v := range h.dr.Snapshot().VisitedNodes {
				got[k] = v
			}
			if !sameCounts(got, m.visitLog[i]) {
				v := failf("after element %d%s Snapshot().VisitedNodes = %s, want %s\nscript:\n%s\nchoices %v", i, what, showCounts(got), showCounts(m.visitLog[i]), script, c.Choices)
				return &v
			}
			for k, v := range prev {
				if got[k] < v {
					f := failf("visit count of %s decreased from %d to %d at element %d%s\nscript:\n%s", k, v, got[k], i, what, script)
					return &f
				}
			}
			prev = got
			if ev.K == "end" {
				break
			}
		}
		return nil
	}
	if v := phase(m, ""); v != nil {
		return *v, m
	}
	if c.Restore == nil {
		return Verdict{}, m
	}
	// restore a hand-made snapshot: counts (explicit zeros included) and node are arbitrary, variables are the current ones
	node := m.findNode(c.Restore.Node)
	if node == nil {
		return Verdict{Discard: "restore target is not a node"}, m
	}
	visits := map[string]int{}
	for k, v := range c.Restore.Visits {
		visits[k] = v
	}
	h.storer.mute = true
	snap := &ysgo.Snapshot{CurrentNode: c.Restore.Node, VisitedNodes: visits, Variables: h.storer.GetValues()}
	h.storer.mute = false
	if err := h.dr.RestoreAt(snap); err != nil {
		return failf("RestoreAt failed: %v\nscript:\n%s", err, script), m
	}
	m2 := newInterp(c.Script, h.finalStore(), c.Choices, flowMaxEv)
	m2.startAt = node
	for k, v := range c.Restore.Visits {
		if v != 0 {
			m2.visits[k] = v
		}
	}
	m2.run()
	if m2.diverged {
		return Verdict{Discard: "script runs more than 300 statements without yielding"}, m
	}
	h.trace = nil
	prev = map[string]int{}
	what := fmt.Sprintf(" after restoring {node %s, visits %v}", c.Restore.Node, c.Restore.Visits)
	if v := phase(m2, what); v != nil {
		return *v, m
	}
	m2.stats.jumps += m.stats.jumps
	m2.restored = true
	return Verdict{}, m2
}

func classifyVisits(c flowCase, m *interp) Verdict {
	final := m.visits
	maxCount, untrackedLeft := 0, false
	for _, v := range final {
		maxCount = max(maxCount, v)
	}
	// an untracked node was left when the model jumped away from a "never" node: recompute cheaply
	for _, n := range c.Script.allNodes() {
		if n.Tracking == "never" && m.leftNodes[n.Title] {
			untrackedLeft = true
		}
	}
	cls := []string{fmt.Sprintf("jumps=%d", min(m.stats.jumps, 6)), fmt.Sprintf("max-count=%d", min(maxCount, 4))}
	if untrackedLeft {
		cls = append(cls, "left-untracked-node")
	}
	if m.stats.nestedJumps > 0 {
		cls = append(cls, "jump-from-nested-body")
	}
	if m.stats.errs > 0 {
		cls = append(cls, "failed-jump")
	}
	return Verdict{NonTrivial: m.stats.jumps >= 3 && (maxCount >= 2 || untrackedLeft), Classes: cls}
}

func runC11(c c11Case) Verdict {
	v, m := compareVisitsRestore(c)
	if v.Fail != "" || v.Discard != "" {
		return v
	}
	cv := classifyVisits(c.flowCase, m)
	if m.restored {
		cv.Classes = append(cv.Classes, "restored-hand-made-snapshot")
	}
	return cv
}

var visitScriptOpts = scriptOpts{maxNodes: 5, maxDepth: 3, maxBody: 3, tracking: true, visitText: true, noCommands: true, endWithJump: 4, router: true, shadow: true,
	extraStmt: func(g *scriptGen, depth int) *Stmt {
		switch rapid.IntRange(0, 5).Draw(g.t, "visitstmt") {
		case 0:
			return &Stmt{K: "jumpx", E: str("Nowhere")} // fails: must not count
		case 1:
			return &Stmt{K: "jump", Target: "Nowhere"}
		case 2, 3:
			return &Stmt{K: "jump", Target: g.jumpTarget()}
		}
		return nil
	}}

var c11Visits = Register(Prop[c11Case]{
	ID: "C11", Name: "visits",
	Gen: func(t *rapid.T) c11Case {
		c := c11Case{flowCase: genFlowCase(t, visitScriptOpts)}
		c.Junk = nil
		if rapid.Bool().Draw(t, "restore") {
			r := &c11Restore{After: rapid.IntRange(1, 12).Draw(t, "after"), Visits: map[string]int{}}
			nodes := c.Script.allNodes()
			r.Node = nodes[rapid.IntRange(0, len(nodes)-1).Draw(t, "node")].Title
			for _, n := range nodes {
				if rapid.Bool().Draw(t, "has") {
					r.Visits[n.Title] = rapid.SampledFrom([]int{0, 0, 1, 2, 5}).Draw(t, "count")
				}
			}
			if rapid.IntRange(0, 3).Draw(t, "nonnode") == 0 {
				r.Visits["Elsewhere"] = 0
			}
			c.Restore = r
		}
		return c
	},
	Run: runC11,
	Minimize: func(c c11Case, stillFails func(c11Case) bool) c11Case {
		c.flowCase = minimizeFlow(c.flowCase, func(f flowCase) bool { cc := c; cc.flowCase = f; return stillFails(cc) })
		return c
	},
	Render: func(c c11Case) any {
		return map[string]any{"files": renderCanonical(c.Script), "choices": c.Choices, "restore": c.Restore}
	},
})

func TestC11Visits(t *testing.T) { Check(t, c11Visits) }

func runC11AllPaths(c flowCase) Verdict {
	var bad Verdict
	nt := false
	paths, complete := allPaths(c, 64, func(path []int) bool {
		cc := c
		cc.Choices = append(append([]int{}, path...), make([]int, flowMaxEv)...)
		v, m := compareVisits(cc)
		if v.Fail != "" {
			bad = failf("on choice path %v: %s", path, v.Fail)
			return false
		}
		if v.Discard != "" {
			bad = v
			return false
		}
		nt = nt || classifyVisits(cc, m).NonTrivial
		return true
	})
	if bad.Fail != "" || bad.Discard != "" {
		return bad
	}
	cls := []string{"paths=" + bucket(paths)}
	if complete {
		cls = append(cls, "all-paths-enumerated")
	}
	return Verdict{NonTrivial: nt && paths >= 2, Classes: cls}
}

var c11AllPaths = Register(Prop[flowCase]{
	ID: "C11", Name: "all-paths",
	Gen: func(t *rapid.T) flowCase {
		c := genFlowCase(t, visitScriptOpts)
		c.Choices, c.Junk = nil, nil
		return c
	},
	Run: runC11AllPaths, Render: renderFlow, Minimize: minimizeFlow,
})

func TestC11AllPaths(t *testing.T) { Check(t, c11AllPaths) }

// ---------------------------------------------------------------------------------------
// C12

type c12Case struct {
	flowCase
	After []int `json:"after"` // arguments of the Next calls made after the first end
	// Faulty: the script contains jumps to nodes that do not exist (errors, after which the dialogue goes on with the next
	// statement): the runner is driven past every error until it reports the end itself
	Faulty bool `json:"faulty,omitempty"`
}

func runC12(c c12Case) Verdict {
	srcs := renderCanonical(c.Script)
	m := newInterp(c.Script, c.Vars, c.Choices, flowMaxEv)
	m.stopAtErr = true
	m.run()
	if m.diverged {
		return Verdict{Discard: "script runs more than 300 statements without yielding"}
	}
	if m.stats.errs > 0 && !m.sawBoom && !c.Faulty {
		return Verdict{Discard: "generated script is not fault-free"}
	}
	if !m.sawBoom && !c.Faulty && (len(m.trace) == 0 || m.trace[len(m.trace)-1].K != "end") {
		return Verdict{Discard: "no end within the element limit"}
	}
	h, err := newHost(srcs, "abc", c.Vars)
	if err != nil {
		return failf("generated script does not load: %v", err)
	}
	script := strings.Join(srcs, "\n-- next reader --\n")
	// a host command registered under "stop" must never be dispatched (C17); were it, it would stay pending for ever
	h.dr.AddCommand("stop", func(args []*variable.Value) <-chan error {
		h.cmdLog = append(h.cmdLog, "stop-handler-invoked")
		return make(chan error)
	})
	// the runner is driven until it reports the end itself; whether it got there the right way is C01's business
	h.drive(c.Choices, nil, flowMaxEv, !c.Faulty)
	if n := len(h.trace); n > 0 && h.trace[n-1].K == "panic" && m.sawBoom {
		// the host's own panic came out of Next: no end was reported, nothing to check
		return Verdict{Classes: []string{"host-panic-propagated"}}
	}
	if n := len(h.trace); n == 0 || h.trace[n-1].K != "end" {
		return Verdict{Discard: "the runner reports no end within the element limit (C01/C06's business)"}
	}
	writes, fns, cmds := len(h.storer.writes()), len(h.fnLog), len(h.cmdLog)
	store := h.finalStore()
	for i, arg := range c.After {
		ev := h.step(arg)
		switch ev.K {
		case "end":
		case "panic":
			return failf("call %d after the end, Next(%d), panicked: %s\nscript:\n%s\nchoices %v\ntrace:\n%s", i+1, arg, ev.Text, script, c.Choices, showTrace(h.trace))
		default:
			return failf("call %d after the end, Next(%d), returned %s instead of the end marker\nscript:\n%s\nchoices %v\ntrace:\n%s", i+1, arg, ev, script, c.Choices, showTrace(h.trace))
		}
		if len(h.storer.writes()) != writes || len(h.fnLog) != fns || len(h.cmdLog) != cmds {
			return failf("call %d after the end, Next(%d), had side effects: storer writes %v, function calls %v, commands %v\nscript:\n%s",
				i+1, arg, h.storer.writes()[writes:], h.fnLog[fns:], h.cmdLog[cmds:], script)
		}
	}
	if d := sameStore(store, h.finalStore()); d != "" {
		return failf("variables changed after the end: %s", d)
	}
	var cls []string
	if m.stats.stopWithRest {
		cls = append(cls, "stop-with-statements-remaining")
	}
	if m.stats.nestedStops > 0 {
		cls = append(cls, "stop-inside-nested-body")
	}
	if m.stats.endAfterOptions {
		cls = append(cls, "end-right-after-option-group")
	}
	if c.Faulty {
		cls = append(cls, "driven-past-errors")
	}
	cls = append(cls, fmt.Sprintf("calls-after-end=%d", len(c.After)))
	return Verdict{NonTrivial: m.stats.stopWithRest || m.stats.nestedStops > 0 || m.stats.endAfterOptions, Classes: cls}
}

var c12End = Register(Prop[c12Case]{
	ID: "C12", Name: "absorbing-end",
	Gen: func(t *rapid.T) c12Case {
		faulty := rapid.IntRange(0, 3).Draw(t, "faulty") == 0
		o := scriptOpts{maxNodes: 3, maxDepth: 3, maxBody: 4, stopBias: 2, forwardOnly: true, extraStmt: func(g *scriptGen, depth int) *Stmt {
			if rapid.IntRange(0, 7).Draw(g.t, "eoferr") == 0 {
				// a host function whose error wraps io.EOF: an error, not the end of the dialogue
				if rapid.Bool().Draw(g.t, "inline") {
					g.lineID++
					return &Stmt{K: "line", Text: []TextPart{{S: fmt.Sprintf("L%d ", g.lineID)}, {E: call("eoferr")}}}
				}
				return &Stmt{K: "call", Fn: "eoferr"}
			}
			if rapid.IntRange(0, 5).Draw(g.t, "boom") == 0 {
				// a host function that panics: whatever Next does about it, it must not claim that the dialogue has ended and then go on
				return &Stmt{K: "call", Fn: "boom"}
			}
			if faulty && rapid.IntRange(0, 2).Draw(g.t, "nowhere") == 0 {
				// a jump to a node the script does not have: an error, not the end; the statements behind it are still to come
				if rapid.Bool().Draw(g.t, "computed") {
					return &Stmt{K: "jumpx", E: bin("+", str("No"), str("where"))}
				}
				return &Stmt{K: "jump", Target: "Nowhere"}
			}
			if rapid.IntRange(0, 1).Draw(g.t, "wait") == 0 {
				// a command that completes by itself a little later: the call that sees it finish must go on, not end
				return &Stmt{K: "cmd", Words: []TextPart{{S: "wait"}, {S: rapid.SampledFrom([]string{"0", "0.0002", "0.002"}).Draw(g.t, "secs")}}}
			}
			return nil
		}}
		c := c12Case{flowCase: genFlowCase(t, o), Faulty: faulty}
		c.Junk = nil
		c.After = rapid.SliceOfN(rapid.SampledFrom([]int{0, 0, 1, 2, 3, 5, 99, -1, -7, 1 << 40}), 1, 6).Draw(t, "after")
		return c
	},
	Run: runC12,
	Minimize: func(c c12Case, stillFails func(c12Case) bool) c12Case {
		c.flowCase = minimizeFlow(c.flowCase, func(f flowCase) bool { cc := c; cc.flowCase = f; return stillFails(cc) })
		for len(c.After) > 1 {
			cc := c
			cc.After = c.After[1:]
			if !stillFails(cc) {
				break
			}
			c = cc
		}
		return c
	},
	Render: func(c c12Case) any {
		return map[string]any{"files": renderCanonical(c.Script), "choices": c.Choices, "next_arguments_after_end": c.After}
	},
})

func TestC12End(t *testing.T) { Check(t, c12End) }

// ---------------------------------------------------------------------------------------
// titles as the library itself reports them: whatever a title header with unusual blanks, characters or spelling makes of
// the node's name, the name under which the library attributes the node's lines is the name its visits are counted under

type c11TitleCase struct {
	Title    string `json:"title"`    // written after "title:" (the blank after the colon is added)
	Tracking string `json:"tracking"` // "", "always", "never"
	Laps     int    `json:"laps"`
}

func runC11Titles(c c11TitleCase) Verdict {
	hdr := "title: " + c.Title + "\n"
	if c.Tracking != "" {
		hdr += "tracking: " + c.Tracking + "\n"
	}
	src := hdr + "---\nfirst\n<<jump B>>\n===\ntitle: B\n---\nsecond {visited_count($t)} {visited($t)}\n<<jump {$t}>>\n===\n"
	storer := variable.NewInMemoryStorer()
	storer.SetStringValue("t", "")
	dr, err := ysgo.NewDialogueRunner(storer, "abc", strings.NewReader(src))
	if err != nil {
		return Verdict{Discard: "the title is not accepted: " + firstLine(err.Error())}
	}
	h := &host{dr: dr, storer: newRecStorer()}
	name := ""
	for lap := 1; lap <= c.Laps; lap++ {
		ev := h.step(0)
		if ev.K != "line" || ev.Text != "first" {
			if lap > 1 && ev.K == "err" {
				return Verdict{Discard: "the reported name cannot be jumped to by expression"}
			}
			return failf("title %q: expected the first line, got %s", c.Title, ev)
		}
		if lap == 1 {
			name = ev.Node
			storer.SetStringValue("t", name)
		} else if ev.Node != name {
			return failf("title %q: the start node is reported as %q in lap 1 and as %q in lap %d", c.Title, name, ev.Node, lap)
		}
		ev = h.step(0)
		want := fmt.Sprintf("second %d True", lap)
		if c.Tracking == "never" {
			want = "second 0 False"
		}
		if ev.K != "line" || ev.Text != want {
			return failf("the node written 'title: %s' is reported as %q; after it was left through a jump %d times, visited_count/visited of that name give %s, want %q", c.Title, name, lap, ev, want)
		}
		if got := dr.Snapshot().VisitedNodes[name]; c.Tracking != "never" && got != lap {
			return failf("the node written 'title: %s' is reported as %q; after %d visits Snapshot().VisitedNodes = %v", c.Title, name, lap, dr.Snapshot().VisitedNodes)
		}
	}
	return Verdict{NonTrivial: name != strings.TrimSpace(c.Title) || c.Title != strings.TrimSpace(c.Title) || c.Laps > 1, Classes: []string{fmt.Sprintf("reported-differs=%v", name != c.Title)}}
}

var c11Titles = Register(Prop[c11TitleCase]{
	ID: "C11", Name: "titles-as-reported",
	Gen: func(t *rapid.T) c11TitleCase {
		base := rapid.SampledFrom([]string{"A", "Start", "Ünï", "日本", "a_b", "Node9", "x.y", "title", "B2"}).Draw(t, "base")
		return c11TitleCase{
			Title:    rapid.SampledFrom([]string{"", " ", "  "}).Draw(t, "lead") + base + rapid.SampledFrom([]string{"", " ", "  ", "\t", " \t ", "\u00a0", "\u3000"}).Draw(t, "trail"),
			Tracking: rapid.SampledFrom([]string{"", "", "always", "never"}).Draw(t, "tracking"),
			Laps:     rapid.IntRange(1, 3).Draw(t, "laps"),
		}
	},
	Run: runC11Titles,
})

func TestC11Titles(t *testing.T) { Check(t, c11Titles) }

// Every nesting depth 1..24 of if clauses and option bodies (any mix) with a <<stop>> at the bottom and statements left
// behind it at every level.
var c12Deep = Register(Prop[c12Case]{ID: "C12", Name: "deep-stop", Run: runC12, Render: c12End.Render})

func TestC12DeepStop(t *testing.T) {
	Enumerate(t, c12Deep, true, "a <<stop>> nested 1..24 blocks deep (if clauses, option bodies, alternating either way), with a line and a set statement left behind it at every level, then 4 further calls",
		func(yield func(c12Case) bool) {
			for depth := 1; depth <= 24; depth++ {
				for _, pattern := range []string{"if", "opts", "if-opts", "opts-if"} {
					body := []*Stmt{{K: "line", Text: []TextPart{{S: "at the bottom"}}}, {K: "stop"}, {K: "line", Text: []TextPart{{S: "behind the stop"}}}}
					for d := depth; d >= 1; d-- {
						useIf := pattern == "if" || (pattern == "if-opts" && d%2 == 1) || (pattern == "opts-if" && d%2 == 0)
						var block *Stmt
						if useIf {
							block = &Stmt{K: "if", Clauses: []*Clause{{Cond: boolean(true), Body: body}}}
						} else {
							block = &Stmt{K: "opts", Opts: []*Opt{{Text: []TextPart{{S: fmt.Sprintf("down %d", d)}}, Body: body}}}
						}
						body = []*Stmt{{K: "line", Text: []TextPart{{S: fmt.Sprintf("level %d", d)}}}, block, {K: "set", Var: "k1", Op: "+=", E: num("1")}, {K: "line", Text: []TextPart{{S: fmt.Sprintf("behind level %d", d)}}}}
					}
					sc := &Script{Files: [][]*Node{{{Title: "A", Body: body}, {Title: "B", Body: []*Stmt{{K: "line", Text: []TextPart{{S: "never"}}}}}}}}
					c := c12Case{flowCase: flowCase{Script: sc, Vars: flowVars, Choices: []int{0}}, After: []int{0, 1, -1, 7}}
					if !yield(c) {
						return
					}
				}
			}
		})
}
