//go:build verif

package harness

// C18 — independent runners can be created and driven concurrently.

import (
	"encoding/json"
	"fmt"
	"github.com/remieven/ysgo"
	"github.com/remieven/ysgo/markup"
	"os"
	"os/exec"
	"path/filepath"
	"runtime"
	"strings"
	"sync"
	"testing"
	"time"

	"github.com/remieven/ysgo/variable"
	"pgregory.net/rapid"
)

type c18Prog struct {
	flowCase
	Seed string `json:"seed"`
	// SharedFirst, when set, is passed as the first reader before the program's own files; its start node jumps to the
	// program's first node
	SharedFirst string `json:"shared_first,omitempty"`
	// Trailer is appended to the program's last file: text after the last node that leaves the lexer inside an indented
	// block, or makes the file invalid (then the program is refused, alone and concurrently alike)
	Trailer string `json:"trailer,omitempty"`
}

type c18Case struct {
	Programs []c18Prog `json:"programs"`
	Rounds   int       `json:"rounds"`
}

func c18Run(p c18Prog) (c09Run, error) {
	srcs := renderCanonical(p.Script)
	if p.Trailer != "" {
		srcs[len(srcs)-1] += p.Trailer
	}
	if p.SharedFirst != "" {
		// a library file shared byte for byte by several programs, followed by the program's own files
		srcs = append([]string{p.SharedFirst}, srcs...)
	}
	h, err := newHost(srcs, p.Seed, p.Vars)
	if err != nil {
		return c09Run{}, err
	}
	// a command that reads its arguments in its own goroutine and completes a little later
	var emitMu sync.Mutex
	var emitted []string
	h.dr.AddCommand("emit", func(args []*variable.Value) <-chan error {
		ch := make(chan error, 1)
		go func() {
			s := showCall("emit", toMvals(args))
			emitMu.Lock()
			emitted = append(emitted, s)
			emitMu.Unlock()
			ch <- nil
		}()
		return ch
	})

	// the converting registrations read package-level tables
	_ = h.dr.ConvertAndAddFunction("twice", func(x float64) float64 { return 2 * x })
	_ = h.dr.ConvertAndAddCommand("note", func(s ...string) error { return nil })
	_ = h.dr.ConvertAndAddFunction("join", func(parts ...string) string { return strings.Join(parts, "+") })
	_ = h.dr.ConvertAndAddFunction("sum", func(first float64, rest ...int) float64 {
		for _, r := range rest {
			first += float64(r)
		}
		return first
	})
	// the host annotates what it receives (the elements are its own): it writes into the property maps of the attributes
	h.onElement = annotateElement
	h.drive(p.Choices, nil, 30, false)
	emitMu.Lock()
	cmds := append(append([]string{}, h.cmdLog...), emitted...)
	emitMu.Unlock()
	return c09Run{Trace: h.trace, Fn: h.fnLog, Cmd: cmds, Store: h.finalStore()}, nil
}

// c18Concurrent creates and drives all programs at once behind a start barrier.
func c18Concurrent(c c18Case) ([]c09Run, []error) {
	runs := make([]c09Run, len(c.Programs))
	errs := make([]error, len(c.Programs))
	start := make(chan struct{})
	var wg sync.WaitGroup
	for i := range c.Programs {
		i := i
		wg.Add(1)
		go func() {
			defer wg.Done()
			defer func() {
				if r := recover(); r != nil {
					errs[i] = fmt.Errorf("panic: %v", r)
				}
			}()
			<-start
			runs[i], errs[i] = c18Run(c.Programs[i])
		}()
	}
	close(start)
	wg.Wait()
	return runs, errs
}

// annotateElement writes into every attribute's property map of an element (after the trace has been taken from it? no:
// before - the annotation key is stripped by nobody, it simply does not show in texts, tags or Disabled flags).
func annotateElement(el *ysgo.DialogueElement) {
	mark := func(l *ysgo.Line) {
		if l == nil {
			return
		}
		for i := range l.Attributes {
			if l.Attributes[i].Properties != nil {
				l.Attributes[i].Properties["seenByHost"] = markup.Value{StringValue: el.Node, ValueType: markup.ValueTypeString}
			}
		}
	}
	mark(el.Line)
	for i := range el.Options {
		mark(el.Options[i].Line)
	}
}

// c18Rendezvous: n runners (more than there are processors) each run a converted command without result that only returns
// once all n handlers are running. Runners are independent: nothing in the library may make one wait for another's command.
func c18Rendezvous(n int) string {
	var arrived sync.WaitGroup
	arrived.Add(n)
	allHere := make(chan struct{})
	go func() { arrived.Wait(); close(allHere) }()
	done := make(chan string, n)
	for i := 0; i < n; i++ {
		go func(i int) {
			h, err := newHost([]string{"title: A\n---\nbefore\n<<meet>>\nafter\n===\n"}, "abc", nil)
			if err != nil {
				done <- err.Error()
				return
			}
			if err := h.dr.ConvertAndAddCommand("meet", func() {
				arrived.Done()
				<-allHere
			}); err != nil {
				done <- err.Error()
				return
			}
			h.drive(nil, nil, 10, false)
			if len(h.trace) != 3 || h.trace[1].Text != "after" {
				done <- fmt.Sprintf("runner %d: unexpected trace %s", i, strings.ReplaceAll(showTrace(h.trace), "\n", " / "))
				return
			}
			done <- ""
		}(i)
	}
	deadline := time.After(30 * time.Second)
	for i := 0; i < n; i++ {
		select {
		case msg := <-done:
			if msg != "" {
				return msg
			}
		case <-deadline:
			return fmt.Sprintf("%d runners each run a command that returns once all %d handlers are running: after 30 s only %d runners have finished (a runner's command waits for the commands of other runners)", n, n, i)
		}
	}
	return ""
}

const c18ColdScript = `title: A
---
Bob: \[x\] [b]bold [i/] é[/b] [select value=m m="he"]x[/select] [plural value=2 one="a" other="% b"]x[/plural] [ordinal value=2 one="%st" two="%nd" few="%rd" other="%th"]x[/ordinal] [nomarkup][raw][/nomarkup] [select value=f f="she" /] [plural value=1 one="a" other="b" /] [ordinal value=3 one="st" two="nd" few="rd" other="th" /]
{round_places(1 / 3, 2)} {dice(6)} {random_range(1, 3)} {string(true)} {join("a", "b")} {sum(1, 2, 3)} {twice(2)} {visited("A")}
-> one <<if $x > 1>> #tag
    <<note a b>>
    <<set $x += 1>>
    <<jump B>>
-> two
===
title: B
---
<<declare $y = "s" as string>>
<<if $x >= 2 and not false>>
    in B {$x} {$y}
<<endif>>
<<wait 0>>
done
===
`

// c18ColdStorm: n goroutines create a runner for the same script and drive it to the end, all starting together; every
// trace must be the one a runner produces afterwards, alone.
func c18ColdStorm(n int) string {
	p := c18Prog{Seed: "cold"}
	run := func() (c09Run, error) {
		h, err := newHost([]string{c18ColdScript}, p.Seed, map[string]mval{"x": numVal(1)})
		if err != nil {
			return c09Run{}, err
		}
		_ = h.dr.ConvertAndAddFunction("twice", func(x float64) float64 { return 2 * x })
		_ = h.dr.ConvertAndAddCommand("note", func(s ...string) error { return nil })
		_ = h.dr.ConvertAndAddFunction("join", func(parts ...string) string { return strings.Join(parts, "+") })
		_ = h.dr.ConvertAndAddFunction("sum", func(first float64, rest ...int) float64 {
			for _, r := range rest {
				first += float64(r)
			}
			return first
		})
		h.onElement = annotateElement
		h.drive([]int{0}, nil, 30, false)
		return c09Run{Trace: h.trace, Fn: h.fnLog, Cmd: h.cmdLog, Store: h.finalStore()}, nil
	}
	runs := make([]c09Run, n)
	errs := make([]error, n)
	start := make(chan struct{})
	var wg sync.WaitGroup
	for i := 0; i < n; i++ {
		i := i
		wg.Add(1)
		go func() {
			defer wg.Done()
			defer func() {
				if r := recover(); r != nil {
					errs[i] = fmt.Errorf("panic: %v", r)
				}
			}()
			<-start
			runs[i], errs[i] = run()
		}()
	}
	close(start)
	wg.Wait()
	alone, err := run()
	if err != nil {
		return "the cold-start script does not load: " + err.Error()
	}
	if len(alone.Trace) < 5 || alone.Trace[len(alone.Trace)-1].K != "end" {
		return "the cold-start script does not run to its end when run alone: " + strings.ReplaceAll(showTrace(alone.Trace), "\n", " / ")
	}
	for i := range runs {
		if errs[i] != nil {
			return fmt.Sprintf("runner %d of %d that were created and driven at the same moment in a fresh process failed: %v", i, n, errs[i])
		}
		if d := alone.diff(runs[i]); d != "" {
			return fmt.Sprintf("runner %d of %d that were created and driven at the same moment in a fresh process gives another trace than a runner alone: %s | alone: %s | concurrent: %s",
				i, n, d, strings.ReplaceAll(showTrace(alone.Trace), "\n", " / "), strings.ReplaceAll(showTrace(runs[i].Trace), "\n", " / "))
		}
	}
	return ""
}

// TestC18Child: concurrent phase first (cold parser caches), then each program alone; prints the verdict.
func TestC18Child(t *testing.T) {
	path := os.Getenv("VERIF_C18_CHILD")
	if path == "" {
		t.Skip("only run as a child process")
	}
	raw, err := os.ReadFile(path)
	if err != nil {
		t.Fatal(err)
	}
	var c c18Case
	if err := json.Unmarshal(raw, &c); err != nil {
		t.Fatal(err)
	}
	// first of all, in this still cold process: many runners do the same things for the first time at the same moment
	// (tables and caches that are filled on first use are filled now)
	if msg := c18ColdStorm(12); msg != "" {
		fmt.Printf("C18RESULT fail %s\n", msg)
		return
	}
	if msg := c18Rendezvous(2*runtime.NumCPU() + 3); msg != "" {
		fmt.Printf("C18RESULT fail %s\n", msg)
		return
	}
	var rounds [][]c09Run
	var roundErrs [][]error
	for r := 0; r < max(1, c.Rounds); r++ {
		runs, errs := c18Concurrent(c)
		for i, e := range errs {
			if e != nil && strings.HasPrefix(e.Error(), "panic: ") {
				fmt.Printf("C18RESULT fail program %d failed when run concurrently (round %d): %v\n", i, r, e)
				return
			}
		}
		rounds = append(rounds, runs)
		roundErrs = append(roundErrs, errs)
	}
	for i, p := range c.Programs {
		alone, err := c18Run(p)
		for r := range rounds {
			// a program that is refused is refused alone and concurrently alike
			if ce := roundErrs[r][i]; (ce == nil) != (err == nil) || (ce != nil && ce.Error() != err.Error()) {
				fmt.Printf("C18RESULT fail program %d: creating its runner alone gives the error %v, concurrently with %d others (round %d) the error %v\n", i, err, len(c.Programs)-1, r, ce)
				return
			}
		}
		if err != nil {
			if p.Trailer == "" {
				fmt.Printf("C18RESULT fail program %d failed when run alone: %v\n", i, err)
				return
			}
			continue
		}
		for r, runs := range rounds {
			if p.Seed == "" {
				continue // a random seed: nothing to compare, the race detector still watches
			}
			if d := alone.diff(runs[i]); d != "" {
				msg := fmt.Sprintf("program %d gives another trace when %d runners are created and driven concurrently (round %d) than alone: %s | alone: %s | concurrent: %s",
					i, len(c.Programs), r, d, strings.ReplaceAll(showTrace(alone.Trace), "\n", " / "), strings.ReplaceAll(showTrace(runs[i].Trace), "\n", " / "))
				fmt.Printf("C18RESULT fail %s\n", msg)
				return
			}
		}
	}
	fmt.Println("C18RESULT ok")
}

func runC18(c c18Case) Verdict {
	raw, _ := json.Marshal(c)
	path := filepath.Join(outDir(), fmt.Sprintf("c18-child-%s-%d.json", shardName(), os.Getpid()))
	if err := os.WriteFile(path, raw, 0o644); err != nil {
		return Verdict{Discard: "cannot write the child's case file"}
	}
	defer os.Remove(path)
	cmd := exec.Command(os.Args[0], "-test.run=^TestC18Child$", "-test.count=1")
	cmd.Env = append(os.Environ(), "VERIF_C18_CHILD="+path)
	out, err := cmd.CombinedOutput()
	text := string(out)
	if strings.Contains(text, "WARNING: DATA RACE") {
		i := strings.Index(text, "WARNING: DATA RACE")
		return failf("the race detector reports a data race between concurrently created/driven runners:\n%s", text[i:min(len(text), i+3000)])
	}
	if strings.Contains(text, "fatal error:") {
		i := strings.Index(text, "fatal error:")
		return failf("the process died while runners ran concurrently: %s", text[i:min(len(text), i+1500)])
	}
	for _, line := range strings.Split(text, "\n") {
		if strings.HasPrefix(line, "C18RESULT ok") {
			distinct := map[string]bool{}
			for _, p := range c.Programs {
				b, _ := json.Marshal(p.Script)
				distinct[string(b)] = true
			}
			return Verdict{NonTrivial: len(distinct) >= 2, Classes: []string{fmt.Sprintf("programs=%d", len(c.Programs))}}
		}
		if strings.HasPrefix(line, "C18RESULT fail ") {
			return failf("%s", strings.TrimPrefix(line, "C18RESULT fail "))
		}
	}
	if err != nil {
		return Verdict{Discard: "child process failed to run: " + firstLine(text)}
	}
	return Verdict{Discard: "child process printed no result"}
}

var c18ScriptOpts = scriptOpts{maxNodes: 3, maxDepth: 3, maxBody: 4, random: true, firstLine: true, tracking: true,
	extraStmt: func(g *scriptGen, depth int) *Stmt {
		g.lineID++
		switch rapid.IntRange(0, 6).Draw(g.t, "c18stmt") {
		case 5:
			// converted host functions and commands with variadic tails, called with arguments of this very line
			return &Stmt{K: "line", Text: []TextPart{{S: fmt.Sprintf("L%d ", g.lineID)}, {E: call("join", str(fmt.Sprintf("L%d", g.lineID)), str("x"), call("string", varRef("k1")))}, {S: " "},
				{E: call("sum", varRef("k1"), num(fmt.Sprint(g.lineID)), num("2"))}, {S: " "}, {E: call("twice", varRef("k2"))}}}
		case 6:
			return &Stmt{K: "cmd", Words: []TextPart{{S: "note"}, {S: fmt.Sprintf("n%d", g.lineID)}, {S: "b"}, {E: call("join", str("c"), str(fmt.Sprint(g.lineID)))}}}
		case 3:
			return &Stmt{K: "cmd", Words: []TextPart{{S: "wait"}, {S: rapid.SampledFrom([]string{"0", "0.0001", "0.001"}).Draw(g.t, "secs")}}}
		case 4:
			return &Stmt{K: "cmd", Words: []TextPart{{S: "emit"}, {S: fmt.Sprintf("tag%d", g.lineID)}, {E: bin("+", varRef("k1"), num(fmt.Sprint(g.lineID)))}}}
		case 0:
			return &Stmt{K: "line", Text: []TextPart{{S: fmt.Sprintf("Bob: L%d \\[x\\] [b]bold [i/] é[/b] [select value=m m=\"he\" /] [nomarkup][raw][/nomarkup] [plural value=2 one=\"a\" other=\"%% b\"]x[/plural] [select value=f f=\"she\"]y[/select]", g.lineID)}}}
		case 1:
			return &Stmt{K: "line", Text: []TextPart{{S: fmt.Sprintf("L%d ", g.lineID)}, {E: call("round_places", bin("/", varRef("k2"), num("3")), num("2"))}, {S: " "}, {E: call("string", varRef("f1"))}}}
		}
		return nil
	}}

// untitleStart removes the title header of the script's first node (and later nodes of the same title).
func untitleStart(sc *Script) {
	start := sc.allNodes()[0]
	var files [][]*Node
	for _, file := range sc.Files {
		var keep []*Node
		for _, n := range file {
			if n == start || n.Title != start.Title {
				keep = append(keep, n)
			}
		}
		if len(keep) > 0 {
			files = append(files, keep)
		}
	}
	sc.Files = files
	sc.FileTags = nil
	start.Title = ""
	if len(start.Headers) == 0 {
		start.Headers = append(start.Headers, [2]string{"colour", "red and blue"})
	}
}

var c18Concurrently = Register(Prop[c18Case]{
	ID: "C18", Name: "concurrent",
	Gen: func(t *rapid.T) c18Case {
		n := rapid.IntRange(2, 8).Draw(t, "programs")
		var c c18Case
		for i := 0; i < n; i++ {
			if i > 0 && rapid.IntRange(0, 3).Draw(t, "same") == 0 {
				c.Programs = append(c.Programs, c.Programs[rapid.IntRange(0, i-1).Draw(t, "which")])
				continue
			}
			f := genFlowCase(t, c18ScriptOpts)
			f.Junk = nil
			if rapid.IntRange(0, 2).Draw(t, "storm") == 0 {
				// a program that fires many asynchronous commands in a row, each with its own arguments
				n := rapid.IntRange(40, 160).Draw(t, "commands")
				var body []*Stmt
				for k := 0; k < n; k++ {
					if k%7 == 3 {
						body = append(body, &Stmt{K: "cmd", Words: []TextPart{{S: "wait"}, {S: "0.0001"}}})
					}
					body = append(body, &Stmt{K: "cmd", Words: []TextPart{{S: "emit"}, {S: fmt.Sprintf("r%d", i)}, {E: num(fmt.Sprint(k))}, {E: call("string", bin("+", varRef("k1"), num(fmt.Sprint(k))))},
						{E: call("join", str(fmt.Sprintf("r%d", i)), str(fmt.Sprint(k)), str("z"))}, {E: call("sum", num(fmt.Sprint(i)), num(fmt.Sprint(k)), num("1"))}}})
				}
				body = append(body, &Stmt{K: "line", Text: []TextPart{{S: "storm over"}}})
				f.Script = &Script{Files: [][]*Node{{{Title: "A", Body: body}}}}
			}
			seed := genSeedLegal(t)
			if rapid.IntRange(0, 3).Draw(t, "emptyseed") == 0 {
				seed = ""
			}
			if rapid.IntRange(0, 3).Draw(t, "untitled") == 0 {
				// a start node without a title header: its name is the empty string in every runner, whatever else the
				// process has loaded (jumps back to its former title now fail - alone and concurrently alike)
				untitleStart(f.Script)
			}
			prog := c18Prog{flowCase: f, Seed: seed}
			if rapid.IntRange(0, 3).Draw(t, "trailer") == 0 {
				prog.Trailer = rapid.SampledFrom(lexerTrailers).Draw(t, "tr")
			}
			c.Programs = append(c.Programs, prog)
		}
		c.Rounds = rapid.IntRange(1, 3).Draw(t, "rounds")
		if rapid.IntRange(0, 2).Draw(t, "shared") == 0 {
			// every program gets the same library file in front: k nodes chained by jumps, the last one jumps to the
			// program's own first node (title A)
			k := rapid.IntRange(1, 9).Draw(t, "librarynodes")
			var b strings.Builder
			for i := 0; i < k; i++ {
				next := "A"
				if i < k-1 {
					next = fmt.Sprintf("Lib%d", i+1)
				}
				fmt.Fprintf(&b, "title: Lib%d\n---\nlibrary line %d\n<<jump %s>>\n===\n", i, i, next)
			}
			for i := range c.Programs {
				c.Programs[i].SharedFirst = b.String()
			}
		}
		return c
	},
	Run: runC18,
	Render: func(c c18Case) any {
		var out []any
		for _, p := range c.Programs {
			out = append(out, map[string]any{"files": renderCanonical(p.Script), "seed": p.Seed, "choices": p.Choices})
		}
		return out
	},
})

func TestC18Concurrent(t *testing.T) { Check(t, c18Concurrently) }
