//go:build verif

package harness

// C04 — line/option rendering: literal text, escapes, interpolation, tags, Disabled.

import (
	"fmt"
	"math"
	"regexp"
	"strconv"
	"strings"
	"testing"
	"unicode"

	"pgregory.net/rapid"
)

type c04Part struct {
	K   string `json:"k"`             // lit, expr
	Src string `json:"src,omitempty"` // literal as written in the script (escapes included)
	Out string `json:"out,omitempty"` // the text it stands for
	E   *Expr  `json:"e,omitempty"`
}

type c04Line struct {
	Parts   []c04Part `json:"parts"`
	Tags    []string  `json:"tags,omitempty"`
	Comment string    `json:"comment,omitempty"` // trailing comment (without the slashes); "" = none
	Lead    int       `json:"lead,omitempty"`    // blanks before the text (plain lines only)
	Trail   int       `json:"trail,omitempty"`   // blanks after the text
	Cond    *Expr     `json:"cond,omitempty"`    // options only
	CondVal bool      `json:"cond_val,omitempty"`
}

type c04Case struct {
	// FailFirst: the dialogue starts with lines whose inline expressions fail (text before and after them): the
	// errors must not leak anything into the elements rendered afterwards
	FailFirst bool            `json:"fail_first,omitempty"`
	Lines     []c04Line       `json:"lines"`
	Options   []c04Line       `json:"options"`
	Vars      map[string]mval `json:"vars"`
	// FileTags are hashtags written before the first node; NodeTags is the value of a "tags:" header of the node. Neither
	// belongs to any line or option.
	FileTags []string `json:"file_tags,omitempty"`
	NodeTags string   `json:"node_tags,omitempty"`
}

func (l c04Line) source(option bool) string {
	var b strings.Builder
	if option {
		b.WriteString("-> ")
	} else {
		b.WriteString(strings.Repeat(" ", l.Lead))
	}
	for _, p := range l.Parts {
		if p.K == "expr" {
			b.WriteString("{" + printExpr(p.E, nil) + "}")
		} else {
			b.WriteString(p.Src)
		}
	}
	b.WriteString(strings.Repeat(" ", l.Trail))
	if l.Cond != nil {
		b.WriteString(" <<if " + printExpr(l.Cond, nil) + ">>")
	}
	for _, t := range l.Tags {
		b.WriteString(" #" + t)
	}
	if l.Comment != "" {
		b.WriteString(" //" + l.Comment)
	}
	return b.String()
}

func (c c04Case) script() string {
	var b strings.Builder
	for _, t := range c.FileTags {
		b.WriteString("#" + t + "\n")
	}
	b.WriteString("title: Start\n")
	if c.NodeTags != "" {
		b.WriteString("tags: " + c.NodeTags + "\n")
	}
	b.WriteString("---\n")
	if c.FailFirst {
		b.WriteString("left over [b\nYou own {$undeclared_variable} things\n-> Buy for {nosuchfunction(1)} coins\n-> Leave\nseparator\n")
	}
	for _, l := range c.Lines {
		b.WriteString(l.source(false) + "\n")
	}
	for _, o := range c.Options {
		b.WriteString(o.source(true) + "\n")
	}
	// the node jumps back to itself: everything is rendered a second time by the same runner
	b.WriteString("<<jump Start>>\n===\n")
	return b.String()
}

var numberShape = `(-?[0-9][0-9.]*(?:[eE][-+]?[0-9]+)?)`

// expectText returns a matcher for the rendered text: literals verbatim, integral numbers as digits, other
// numbers through the validity predicate (parses back exactly, no more significant digits than the shortest form).
func expectText(l c04Line, vars map[string]mval) (func(got string) string, string) {
	var b strings.Builder
	var loose []float64
	for _, p := range l.Parts {
		if p.K != "expr" {
			b.WriteString(p.Out)
			continue
		}
		v, err := evalExpr(p.E, mapEnv(vars))
		if err != nil {
			return nil, "expression fails: " + err.Error()
		}
		switch {
		case v.T == 'n' && (v.N != math.Trunc(v.N) || math.Abs(v.N) > 1<<53):
			loose = append(loose, v.N)
			b.WriteString("\x01")
		default:
			b.WriteString(v.display())
		}
	}
	want := strings.TrimSpace(b.String())
	if len(loose) == 0 {
		return func(got string) string {
			if got != want {
				return fmt.Sprintf("text = %q, want %q", got, want)
			}
			return ""
		}, ""
	}
	pieces := strings.Split(want, "\x01")
	for i := range pieces {
		pieces[i] = regexp.QuoteMeta(pieces[i])
	}
	re := regexp.MustCompile("^" + strings.Join(pieces, numberShape) + "$")
	return func(got string) string {
		m := re.FindStringSubmatch(got)
		if m == nil {
			return fmt.Sprintf("text = %q does not have the form %q with numbers in place of \\x01 (%v)", got, want, loose)
		}
		for i, x := range loose {
			shown := m[i+1]
			f, err := strconv.ParseFloat(shown, 64)
			if err != nil || f != x {
				return fmt.Sprintf("the number %v is displayed as %q, which does not read back as that number", x, shown)
			}
			if x == math.Trunc(x) {
				// an integral number beyond 2^53: its exact expansion (more digits than the shortest form) and the
				// exponent notation are both accepted; reading back exactly is what matters
				continue
			}
			if sigDigits(shown) > sigDigits(strconv.FormatFloat(x, 'e', -1, 64)) {
				return fmt.Sprintf("the number %v is displayed as %q: more digits than its shortest round-trip form %s", x, shown, strconv.FormatFloat(x, 'g', -1, 64))
			}
		}
		return ""
	}, ""
}

// sigDigits counts significant digits of a decimal or exponent notation.
func sigDigits(s string) int {
	s = strings.TrimLeft(s, "-+")
	if i := strings.IndexAny(s, "eE"); i >= 0 {
		s = s[:i]
	}
	digits := strings.ReplaceAll(s, ".", "")
	digits = strings.TrimLeft(digits, "0")
	if strings.Contains(s, ".") {
		// trailing zeros after the point are written digits, keep them; for integers they may be padding of magnitude
		return len(digits)
	}
	return len(strings.TrimRight(digits, "0"))
}

// c04Round renders every element of the node once (the node is run twice by the same runner).
func c04Round(c c04Case, h *host, src string, check func(string, c04Line, string, []string) *Verdict, round int) ([]string, *Verdict) {
	cls := []string{}
	if c.FailFirst {
		for i := 0; i < 3; i++ { // a failing line, a failing option group, a line whose markup fails
			if ev := h.step(0); ev.K != "err" {
				v := failf("the %d. deliberately failing element did not fail: %s\nscript:\n%s", i+1, ev, src)
				return nil, &v
			}
		}
		if ev := h.step(0); ev.K != "line" || ev.Text != "separator" {
			v := failf("after three failing elements the line \"separator\" is rendered as %s\nscript:\n%s", ev, src)
			return nil, &v
		}
		cls = append(cls, "after-failing-elements")
	}
	for i, l := range c.Lines {
		ev := h.step(0)
		if ev.K != "line" {
			v := failf("line %d written as %q: expected a line, got %s\nscript:\n%s", i, l.source(false), ev, src)
			return nil, &v
		}
		if v := check(fmt.Sprintf("line %d", i), l, ev.Text, ev.Tags); v != nil {
			return nil, v
		}
	}
	if len(c.Options) > 0 {
		ev := h.step(0)
		if ev.K != "opts" {
			v := failf("expected the option group, got %s\nscript:\n%s", ev, src)
			return nil, &v
		}
		if len(ev.Opts) != len(c.Options) {
			v := failf("%d options returned for %d written\nscript:\n%s", len(ev.Opts), len(c.Options), src)
			return nil, &v
		}
		conds := 0
		for i, o := range c.Options {
			if v := check(fmt.Sprintf("option %d", i), o, ev.Opts[i].Text, ev.Opts[i].Tags); v != nil {
				return nil, v
			}
			wantDisabled := o.Cond != nil && !o.CondVal
			if ev.Opts[i].Disabled != wantDisabled {
				v := failf("option %d written as %q: Disabled = %v, want %v", i, o.source(true), ev.Opts[i].Disabled, wantDisabled)
				return nil, &v
			}
			if o.Cond != nil {
				conds++
			}
		}
		cls = append(cls, fmt.Sprintf("options=%d conditions=%d", len(c.Options), conds))
	}
	return cls, nil
}

func runC04(c c04Case) Verdict {
	for k, v := range c.Vars {
		v.fix()
		c.Vars[k] = v
	}
	src := c.script()
	h, err := newHost([]string{src}, "abc", c.Vars)
	if err != nil {
		return failf("script does not load: %v\n%s", err, src)
	}
	check := func(what string, l c04Line, text string, tags []string) *Verdict {
		match, problem := expectText(l, c.Vars)
		if problem != "" {
			v := Verdict{Discard: problem}
			return &v
		}
		if d := match(text); d != "" {
			v := failf("%s written as %q: %s", what, l.source(strings.HasPrefix(what, "option")), d)
			return &v
		}
		if !sameStrings(tags, l.Tags) {
			v := failf("%s written as %q: tags %q, want %q", what, l.source(strings.HasPrefix(what, "option")), tags, l.Tags)
			return &v
		}
		return nil
	}
	escapes, interpolations, tagsAndComment := 0, 0, false
	cls := []string{}
	for round := 1; round <= 2; round++ {
		roundCls, v := c04Round(c, h, src, check, round)
		if v != nil {
			return *v
		}
		if round == 1 {
			cls = append(cls, roundCls...)
		}
	}
	for _, l := range append(append([]c04Line{}, c.Lines...), c.Options...) {
		for i, p := range l.Parts {
			if p.K == "expr" {
				interpolations++
				continue
			}
			if p.Src != p.Out {
				escapes++
			}
			if i == 0 && p.Src != "" {
				r := []rune(p.Src)[0]
				switch {
				case r == '\\':
					cls = append(cls, "first=escape")
				case r > 127:
					cls = append(cls, "first=multibyte")
				case unicode.IsLetter(r) || unicode.IsDigit(r):
					cls = append(cls, "first=alnum")
				default:
					cls = append(cls, "first="+string(r))
				}
			}
		}
		if len(l.Parts) > 0 && l.Parts[0].K == "expr" {
			cls = append(cls, "first={")
		}
		if len(l.Tags) > 0 && l.Comment != "" {
			tagsAndComment = true
		}
	}
	return Verdict{NonTrivial: escapes >= 1 || interpolations >= 1 || tagsAndComment, Classes: cls}
}

// ---------------------------------------------------------------------------------------
// generator

var (
	c04Plain      = []rune("abcXYZ019 .,!?'\"():;*+=_~@&%^|`$-")
	c04Multi      = []rune("éü日本語😀ñ́ ß")
	c04MustEscape = []rune(`#{\`)
	c04MayEscape  = []rune(`<>}/`)
)

// genLiteral builds a literal chunk; first says that it opens the line (different lexer rule for the first character).
func genLiteral(t *rapid.T, first bool) c04Part {
	n := rapid.IntRange(1, 8).Draw(t, "len")
	var src, out strings.Builder
	for i := 0; i < n; i++ {
		switch rapid.IntRange(0, 11).Draw(t, "ch") {
		case 0:
			r := rapid.SampledFrom(c04MustEscape).Draw(t, "must")
			src.WriteString(`\` + string(r))
			out.WriteRune(r)
			if r == '\\' {
				// a literal backslash directly before a bracket would be read as a markup escape by the second phase
				// (markup parsing); the statement is silent on that interaction: keep them apart
				src.WriteString("k")
				out.WriteString("k")
			}
		case 1, 2:
			r := rapid.SampledFrom(c04MayEscape).Draw(t, "may")
			if rapid.Bool().Draw(t, "escaped") {
				src.WriteString(`\` + string(r))
			} else {
				// raw '<' and '/' must not form "<<" or "//" with their neighbours: follow them with a letter
				src.WriteString(string(r))
				if r == '<' || r == '/' {
					src.WriteString("k")
					out.WriteRune(r)
					out.WriteRune('k')
					continue
				}
			}
			out.WriteRune(r)
		case 3:
			if first && i == 0 {
				src.WriteString("q")
				out.WriteString("q")
				continue
			}
			r := rapid.SampledFrom([]rune("[]")).Draw(t, "bracket")
			src.WriteString(`\` + string(r))
			out.WriteRune(r)
		case 4, 5:
			r := rapid.SampledFrom(c04Multi).Draw(t, "multi")
			src.WriteRune(r)
			out.WriteRune(r)
		case 6:
			if rapid.Bool().Draw(t, "placeholder") {
				// text that looks like a substitution placeholder of a string table
				k := rapid.IntRange(0, 2).Draw(t, "k")
				src.WriteString(fmt.Sprintf(`\{%d\}`, k))
				out.WriteString(fmt.Sprintf("{%d}", k))
				continue
			}
			src.WriteString("]")
			out.WriteString("]")
		default:
			r := rapid.SampledFrom(c04Plain).Draw(t, "plain")
			src.WriteRune(r)
			out.WriteRune(r)
		}
	}
	p := c04Part{K: "lit", Src: src.String(), Out: out.String()}
	if first {
		// the first character decides between line, option, command, tag, expression and node end
		s := p.Src
		switch {
		case strings.HasPrefix(s, "->"), strings.HasPrefix(s, "<<"), strings.HasPrefix(s, "=="), strings.HasPrefix(s, "//"), strings.HasPrefix(s, " "), strings.HasPrefix(s, " "), strings.HasPrefix(s, "́"):
			p.Src, p.Out = "w"+p.Src, "w"+p.Out
		}
	}
	return p
}

func genC04Number(t *rapid.T) float64 {
	switch rapid.IntRange(0, 7).Draw(t, "num") {
	case 0, 1:
		return float64(rapid.IntRange(-1000, 1000).Draw(t, "int"))
	case 2:
		return float64(rapid.Int64Range(-(1<<53), 1<<53).Draw(t, "bigint"))
	case 3:
		return float64(rapid.IntRange(-100000, 100000).Draw(t, "k")) / float64(rapid.SampledFrom([]int{2, 4, 8, 10, 100, 1000, 3, 7}).Draw(t, "d"))
	case 4:
		return rapid.SampledFrom([]float64{0.1, 0.2, 0.30000000000000004, 1e21, 1e20, 123456789012345680000, 1e-7, 2.5e-10, 5e-324, 1.7976931348623157e308, -1e100, 1 << 60, 9007199254740993, 1e15, 1e16, 0.000001, 100.5}).Draw(t, "special")
	default:
		return rapid.Float64().Draw(t, "float")
	}
}

func genC04Line(t *rapid.T, c *c04Case, option bool) c04Line {
	var l c04Line
	n := rapid.IntRange(1, 5).Draw(t, "parts")
	for i := 0; i < n; i++ {
		kind := rapid.IntRange(0, 9).Draw(t, "part")
		prevExpr := len(l.Parts) > 0 && l.Parts[len(l.Parts)-1].K == "expr"
		switch {
		case kind <= 5 || (i == 0 && option && kind <= 7):
			if len(l.Parts) > 0 && !prevExpr {
				continue // adjacent literals are one literal
			}
			l.Parts = append(l.Parts, genLiteral(t, len(l.Parts) == 0))
		default:
			name := fmt.Sprintf("v%d", len(c.Vars))
			var e *Expr
			switch rapid.IntRange(0, 8).Draw(t, "exprkind") {
			case 8:
				// string literals written in the script, with escaped quotes at the start, inside and at the end: the value is the
				// text between the outer quotes, as written
				lit := func() *Expr {
					return str(rapid.SampledFrom([]string{"abc", `a\"`, `\"b`, `x\"y\"`, `She said \"run\"`, "", "two words", `\"`, `\"\"`, `it's`, `a\\`}).Draw(t, "strlit"))
				}
				e = lit()
				if rapid.IntRange(0, 2).Draw(t, "concat") == 0 {
					e = bin("+", e, lit())
				}
			case 6:
				e = neg(num(rapid.SampledFrom([]string{"5", "0.25", "12", "0"}).Draw(t, "lit")))
			case 7:
				e = not(boolean(rapid.Bool().Draw(t, "lit")))
			case 0, 1:
				c.Vars[name] = numVal(genC04Number(t))
				e = varRef(name)
			case 2:
				c.Vars[name] = boolVal(rapid.Bool().Draw(t, "b"))
				e = varRef(name)
			case 3:
				c.Vars[name] = strVal(rapid.SampledFrom([]string{"", "abc", "two words", "é日", "it's", "a#b", "x{y}", "</>", "100%", " lead", "trail ", "#", "//", "{0}", "{1} {0}", "%s %d {2}", "$v0"}).Draw(t, "s"))
				e = varRef(name)
			case 4:
				e = bin("+", num(fmt.Sprint(rapid.IntRange(0, 50).Draw(t, "a"))), num(rapid.SampledFrom([]string{"1", "0.5", "2.25", "100"}).Draw(t, "b")))
			default:
				e = bin("<", num("1"), num(fmt.Sprint(rapid.IntRange(0, 2).Draw(t, "b"))))
			}
			// numbers that are checked through the predicate must not touch digits of the neighbouring literals
			if len(l.Parts) > 0 && l.Parts[len(l.Parts)-1].K == "lit" {
				p := &l.Parts[len(l.Parts)-1]
				p.Src, p.Out = p.Src+":", p.Out+":"
			} else if prevExpr {
				l.Parts = append(l.Parts, c04Part{K: "lit", Src: " | ", Out: " | "})
			}
			l.Parts = append(l.Parts, c04Part{K: "expr", E: e})
			if i < n-1 {
				l.Parts = append(l.Parts, c04Part{K: "lit", Src: ";", Out: ";"})
			}
		}
	}
	if len(l.Parts) == 0 {
		l.Parts = append(l.Parts, genLiteral(t, true))
	}
	nt := rapid.SampledFrom([]int{0, 0, 0, 1, 2, 3}).Draw(t, "ntags")
	for i := 0; i < nt; i++ {
		l.Tags = append(l.Tags, rapid.SampledFrom([]string{"t", "tag2", "a:b", "é", "x-y", "k=v", "{b}", "a/b", "100%", "[m]", "\\e", "日本", "c,d", "-", ">>",
			// blanks that are not the blank or the tab belong to the tag (the lexer keeps them)
			"タグ\u3000", "\u00a0lead", "x\u2003", "a\u00a0b"}).Draw(t, "tag"))
	}
	if rapid.IntRange(0, 3).Draw(t, "comment") == 0 {
		l.Comment = rapid.SampledFrom([]string{" a comment", "x", " <<if false>> #nottag {1}", " // again", " é"}).Draw(t, "ctext")
	}
	if !option {
		l.Lead = rapid.SampledFrom([]int{0, 0, 0, 1, 4}).Draw(t, "lead")
	}
	l.Trail = rapid.SampledFrom([]int{0, 0, 0, 1, 3}).Draw(t, "trail")
	if option && rapid.Bool().Draw(t, "cond") {
		l.CondVal = rapid.Bool().Draw(t, "condval")
		switch rapid.IntRange(0, 4).Draw(t, "condkind") {
		case 3:
			l.Cond = not(boolean(!l.CondVal))
		case 4:
			if l.CondVal {
				l.Cond = bin(">", num("1"), neg(num("2")))
			} else {
				l.Cond = bin("<", num("1"), neg(num("2")))
			}
		case 0:
			l.Cond = boolean(l.CondVal)
		case 1:
			name := fmt.Sprintf("v%d", len(c.Vars))
			c.Vars[name] = boolVal(l.CondVal)
			l.Cond = varRef(name)
		default:
			if l.CondVal {
				l.Cond = bin("<", num("1"), num("2"))
			} else {
				l.Cond = bin("==", str("a"), str("b"))
			}
		}
	}
	return l
}

var c04Render = Register(Prop[c04Case]{
	ID: "C04", Name: "rendering",
	Gen: func(t *rapid.T) c04Case {
		c := c04Case{Vars: map[string]mval{}, FailFirst: rapid.IntRange(0, 4).Draw(t, "failfirst") == 0}
		if rapid.IntRange(0, 3).Draw(t, "filetags") == 0 {
			c.FileTags = rapid.SampledFrom([][]string{{"filetag"}, {"chapter:one", "draft"}, {"t"}}).Draw(t, "ft")
		}
		if rapid.IntRange(0, 3).Draw(t, "nodetags") == 0 {
			c.NodeTags = rapid.SampledFrom([]string{"intro", "a b c", "#hash like"}).Draw(t, "nt")
		}
		nl := rapid.IntRange(1, 3).Draw(t, "lines")
		for i := 0; i < nl; i++ {
			c.Lines = append(c.Lines, genC04Line(t, &c, false))
		}
		no := rapid.IntRange(0, 4).Draw(t, "options")
		for i := 0; i < no; i++ {
			c.Options = append(c.Options, genC04Line(t, &c, true))
		}
		return c
	},
	Run: runC04,
	Render: func(c c04Case) any {
		vars := map[string]string{}
		for k, v := range c.Vars {
			v.fix()
			vars[k] = v.String()
		}
		return map[string]any{"script": c.script(), "vars": vars}
	},
})

func TestC04Rendering(t *testing.T) { Check(t, c04Render) }

// Exhaustive: every printable ASCII character and every pooled multi-byte character x {first, middle, last} position x {escaped, raw}.
var c04Chars = Register(Prop[c04Case]{ID: "C04", Name: "character-table", Run: runC04, Render: c04Render.Render})

func TestC04CharacterTable(t *testing.T) {
	Enumerate(t, c04Chars, true, "every printable ASCII character and pooled multi-byte character, raw where legal and escaped where escapable, as first, middle and last character of a line and of an option",
		func(yield func(c04Case) bool) {
			var chars []rune
			for r := rune(33); r < 127; r++ {
				chars = append(chars, r)
			}
			chars = append(chars, c04Multi...)
			escapable := `\<>{}#/`
			for _, r := range chars {
				type form struct{ src, out string }
				var forms []form
				rawOK := !strings.ContainsRune(`#{\[`, r)
				if rawOK {
					forms = append(forms, form{string(r), string(r)})
				}
				if strings.ContainsRune(escapable, r) || r == '[' || r == ']' {
					forms = append(forms, form{`\` + string(r), string(r)})
				}
				for _, f := range forms {
					for _, pos := range []string{"first", "middle", "last"} {
						var src, out string
						switch pos {
						case "first":
							src, out = f.src+"k tail", f.out+"k tail"
							raw := f.src == string(r)
							if (raw && strings.ContainsRune("-<=/", r)) || r == '́' || r == ' ' {
								// "->", "<<", "==", "//" and blanks open something else: the character is followed by a letter here, which is legal
							}
							if f.src == `\[` || f.src == `\]` {
								continue // a line may not start with an escaped bracket
							}
							if r == ' ' {
								continue // leading whitespace is stripped
							}
						case "middle":
							src, out = "head "+f.src+"k tail", "head "+f.out+"k tail"
						default:
							src, out = "head "+f.src, "head "+f.out
							if r == ' ' {
								continue // trailing whitespace is stripped
							}
						}
						line := c04Line{Parts: []c04Part{{K: "lit", Src: src, Out: out}}}
						if !yield(c04Case{Lines: []c04Line{line}, Options: []c04Line{line, {Parts: []c04Part{{K: "lit", Src: "other", Out: "other"}}}}, Vars: map[string]mval{}}) {
							return
						}
					}
				}
			}
		})
}
