//go:build verif

package harness

// C09 — same script, seed and choices give the same run; random built-ins stay in range.

import (
	"encoding/json"
	"fmt"
	"hash/adler32"
	"hash/crc32"
	"hash/fnv"
	"math"
	mrand "math/rand"
	"os"
	"os/exec"
	"path/filepath"
	"strconv"
	"strings"
	"testing"

	"github.com/remieven/ysgo"
	"github.com/remieven/ysgo/variable"
	"pgregory.net/rapid"
)

type c09Case struct {
	flowCase
	Seed      string   `json:"seed"`
	OtherSeed string   `json:"other_seed"`
	MoreSeeds []string `json:"more_seeds,omitempty"` // cross-process: the same script is also run with these
}

type c09Run struct {
	Trace []Ev            `json:"trace"`
	Fn    []string        `json:"fn"`
	Cmd   []string        `json:"cmd"`
	Store map[string]mval `json:"store"`
}

func c09Drive(c c09Case, seed string) (c09Run, error) {
	h, err := newHost(renderCanonical(c.Script), seed, c.Vars)
	if err != nil {
		return c09Run{}, err
	}
	h.drive(c.Choices, nil, 40, false)
	return c09Run{Trace: h.trace, Fn: h.fnLog, Cmd: h.cmdLog, Store: h.finalStore()}, nil
}

func (a c09Run) diff(b c09Run) string {
	if d := diffTraces(a.Trace, b.Trace); d != "" {
		return d
	}
	for i := range a.Trace {
		if a.Trace[i].K == "err" && a.Trace[i].Text != b.Trace[i].Text {
			return fmt.Sprintf("error %d differs: %q vs %q", i, a.Trace[i].Text, b.Trace[i].Text)
		}
	}
	if strings.Join(a.Fn, ";") != strings.Join(b.Fn, ";") || strings.Join(a.Cmd, ";") != strings.Join(b.Cmd, ";") {
		return "host function / command logs differ"
	}
	return sameStore(a.Store, b.Store)
}

func traceEnded(tr []Ev) bool {
	return len(tr) > 0 && (tr[len(tr)-1].K == "end" || tr[len(tr)-1].K == "panic")
}

func randomDraws(c c09Case) int {
	n := 0
	var walkE func(e *Expr)
	walkE = func(e *Expr) {
		if e == nil {
			return
		}
		if e.K == "call" && (e.V == "dice" || e.V == "random" || e.V == "random_range") {
			n++
		}
		for _, a := range e.A {
			walkE(a)
		}
	}
	var walk func(ss []*Stmt)
	walk = func(ss []*Stmt) {
		for _, s := range ss {
			for _, p := range s.Text {
				walkE(p.E)
			}
			walkE(s.E)
			for _, o := range s.Opts {
				for _, p := range o.Text {
					walkE(p.E)
				}
				walkE(o.Cond)
				walk(o.Body)
			}
			for _, cl := range s.Clauses {
				walkE(cl.Cond)
				walk(cl.Body)
			}
			walk(s.Else)
		}
	}
	for _, nd := range c.Script.allNodes() {
		walk(nd.Body)
	}
	return n
}

// c09RefusedLoads: inputs no loader accepts, each leaving the lexer or parser at another place.
var c09RefusedLoads = []string{
	"title: A\n---\nx\n===\n    title: B\n---\ny\n===\n",
	"title: A\n---\n-> o\n    x\n        y",
	"title: A\n---\n<<if true>>\n    x\n",
	"title: A\n---\n-> o\n \t x\n===\n",
	"title: A\n---\nx {1 +\n===\n",
	"title: A\n---\n-> o\n    -> p\n        z\n===\n#tag\n",
	"",
	"title: A\n---\nx\n===\n---x{1",
}

func runC09(c c09Case) Verdict {
	m := newInterp(c.Script, c.Vars, c.Choices, flowMaxEv)
	m.stopAtErr = true
	m.run()
	// the model cannot follow random values; it is only asked whether the script can run away without yielding
	first, err := c09Drive(c, c.Seed)
	if err != nil {
		return failf("generated script does not load: %v", err)
	}
	for _, ev := range first.Trace {
		if ev.K == "panic" {
			return failf("Next panicked: %s\nscript:\n%s", ev.Text, joinFiles(renderCanonical(c.Script)))
		}
	}
	// whatever runs in between must not matter: other runners with the same and with another seed, and the global source
	if _, err := c09Drive(c, c.OtherSeed); err != nil {
		return failf("other seed %q refused: %v", c.OtherSeed, err)
	}
	for i := 0; i < 7; i++ {
		mrand.Int63()
	}
	mrand.Seed(int64(len(c.Seed)))
	// ... and loads that are refused (whatever they leave behind in the process is nobody's business afterwards)
	for i, broken := range c09RefusedLoads {
		if (i+len(c.Seed))%2 == 0 {
			func() {
				defer func() { _ = recover() }()
				_, _ = ysgo.NewDialogueRunner(nil, c.Seed, strings.NewReader(broken))
			}()
			if _, err := newHost(renderCanonical(c.Script), c.Seed, c.Vars); err != nil {
				return failf("the script loaded at first; after a refused load of %q in the same process it is refused: %v", broken, err)
			}
		}
	}
	half, _ := newHost(renderCanonical(c.Script), c.Seed, c.Vars)
	half.drive(c.Choices, nil, 3, false)
	second, err := c09Drive(c, c.Seed)
	if err != nil {
		return failf("second load failed: %v", err)
	}
	half.drive(c.Choices, nil, 5, false)
	if d := first.diff(second); d != "" {
		return failf("two runs of the same script with seed %q and the same choices differ: %s\nscript:\n%s\nchoices %v\nfirst run:\n%ssecond run:\n%s",
			c.Seed, d, joinFiles(renderCanonical(c.Script)), c.Choices, showTrace(first.Trace), showTrace(second.Trace))
	}
	// a third run, interleaved step by step with a runner of another seed that is created while it is under way
	third, err3 := newHost(renderCanonical(c.Script), c.Seed, c.Vars)
	if err3 != nil {
		return failf("third load failed: %v", err3)
	}
	nc3, nco := 0, 0
	driveN(third, 2, c.Choices, &nc3)
	other, _ := newHost(renderCanonical(c.Script), c.OtherSeed, c.Vars)
	for len(third.trace) < 40 && !traceEnded(third.trace) {
		if !traceEnded(other.trace) && len(other.trace) < 40 {
			driveN(other, 1, c.Choices, &nco)
		}
		driveN(third, 1, c.Choices, &nc3)
	}
	interleaved := c09Run{Trace: third.trace, Fn: third.fnLog, Cmd: third.cmdLog, Store: third.finalStore()}
	if d := first.diff(interleaved); d != "" {
		return failf("a run with seed %q differs when another runner (seed %q) is created and stepped while it is under way: %s\nscript:\n%s\nchoices %v\nalone:\n%sinterleaved:\n%s",
			c.Seed, c.OtherSeed, d, joinFiles(renderCanonical(c.Script)), c.Choices, showTrace(first.Trace), showTrace(interleaved.Trace))
	}
	draws := randomDraws(c)
	distinctTexts := map[string]bool{}
	for _, ev := range first.Trace {
		if strings.Contains(ev.Text, "roll") || strings.Contains(ev.Text, "r=") {
			distinctTexts[ev.Text[strings.IndexAny(ev.Text, "r"):]] = true
		}
	}
	errs := 0
	for _, ev := range first.Trace {
		if ev.K == "err" {
			errs++
		}
	}
	cls := []string{fmt.Sprintf("draw-sites=%s", bucket(draws))}
	if errs > 0 {
		cls = append(cls, "run-with-errors")
	}
	return Verdict{NonTrivial: draws >= 3 && (len(distinctTexts) >= 2 || errs > 0), Classes: cls}
}

var randomScriptOpts = scriptOpts{maxNodes: 3, maxDepth: 3, maxBody: 5, random: true, firstLine: true,
	extraStmt: func(g *scriptGen, depth int) *Stmt {
		// failing draws: the errors (and their texts) are part of the run and must be the same every time
		if rapid.IntRange(0, 2).Draw(g.t, "failingdraw") != 0 {
			return nil
		}
		g.lineID++
		bad := rapid.SampledFrom([]*Expr{call("dice", num("0")), call("random_range", num("5"), num("1")), call("dice", str("six")), call("random_range", varRef("k1")),
			call("round", str("x")), call("nosuch", num("1"), str("a")),
			// misspelt names, some of them as close to one registered function as to another
			call("dic", num("6")), call("px", str("a")), call("flor", num("1.5")), call("de", num("1")), call("rount", num("2")), call("visitd", str("A")), call("Dice", num("6"))}).Draw(g.t, "bad")
		return &Stmt{K: "line", Text: []TextPart{{S: fmt.Sprintf("L%d ", g.lineID)}, {E: bad}}}
	}}

func genSeedLegal(t *rapid.T) string {
	switch rapid.IntRange(0, 3).Draw(t, "seedlen") {
	case 0:
		return rapid.StringMatching(`[0-9a-z]{13,24}`).Draw(t, "longseed") // beyond what fits an int64 in base 36
	case 1:
		return rapid.SampledFrom([]string{"0", "00", "z", "zzzzzzzzzzzz", "zzzzzzzzzzzzz", "1y2p0ij32e8e7", "a0"}).Draw(t, "edgeseed")
	}
	return rapid.StringMatching(`[0-9a-z]{1,12}`).Draw(t, "seed")
}

func genC09(t *rapid.T) c09Case {
	c := c09Case{flowCase: genFlowCase(t, randomScriptOpts), Seed: genSeedLegal(t), OtherSeed: genSeedLegal(t)}
	c.Junk = nil
	if rapid.IntRange(0, 5).Draw(t, "headers") == 0 {
		// header keys are case-sensitive: a start node whose headers only resemble title/tracking has no title, the same in every run
		start := c.Script.allNodes()[0]
		start.Headers = append(start.Headers, [2]string{"Title", start.Title}, [2]string{"TITLE", start.Title + "2"}, [2]string{"Tracking", "never"}, [2]string{"TRACKING", "always"}, [2]string{"tItLe", "x"})
		start.Title, start.Tracking = "", ""
	}
	return c
}

var c09Determinism = Register(Prop[c09Case]{
	ID: "C09", Name: "determinism", Gen: genC09, Run: runC09,
	Minimize: func(c c09Case, stillFails func(c09Case) bool) c09Case {
		c.flowCase = minimizeFlow(c.flowCase, func(f flowCase) bool { cc := c; cc.flowCase = f; return stillFails(cc) })
		return c
	},
	Render: func(c c09Case) any {
		return map[string]any{"files": renderCanonical(c.Script), "choices": c.Choices, "seed": c.Seed}
	},
})

func TestC09Determinism(t *testing.T) { Check(t, c09Determinism) }

// ---------------------------------------------------------------------------------------
// the same run in a fresh process

func runC09CrossProcess(c c09Case) Verdict {
	seeds := append([]string{c.Seed}, c.MoreSeeds...)
	here := make([]c09Run, len(seeds))
	for i, seed := range seeds {
		var err error
		if here[i], err = c09Drive(c, seed); err != nil {
			return failf("generated script does not load with seed %q: %v", seed, err)
		}
	}
	raw, _ := json.Marshal(c)
	path := filepath.Join(outDir(), fmt.Sprintf("c09-child-%s-%d.json", shardName(), os.Getpid()))
	if err := os.WriteFile(path, raw, 0o644); err != nil {
		return Verdict{Discard: "cannot write the child's case file"}
	}
	defer os.Remove(path)
	for round := 0; round < 2; round++ {
		cmd := exec.Command(os.Args[0], "-test.run=^TestC09Child$", "-test.count=1")
		cmd.Env = append(os.Environ(), "VERIF_C09_CHILD="+path, fmt.Sprintf("VERIF_C09_WARMUP=%d", round))
		out, err := cmd.CombinedOutput()
		if err != nil {
			return Verdict{Discard: "child process failed to run: " + firstLine(string(out))}
		}
		var there []c09Run
		for _, line := range strings.Split(string(out), "\n") {
			if strings.HasPrefix(line, "C09TRACE ") {
				var r c09Run
				if err := json.Unmarshal([]byte(strings.TrimPrefix(line, "C09TRACE ")), &r); err == nil {
					for k, v := range r.Store {
						v.fix()
						r.Store[k] = v
					}
					there = append(there, r)
				}
			}
		}
		if len(there) != len(seeds) {
			return Verdict{Discard: "child process printed no trace"}
		}
		for i, seed := range seeds {
			if d := here[i].diff(there[i]); d != "" {
				return failf("the same script, seed %q and choices give another run in a fresh process (round %d): %s\nscript:\n%s\nin this process:\n%sin the fresh process:\n%s",
					seed, round, d, joinFiles(renderCanonical(c.Script)), showTrace(here[i].Trace), showTrace(there[i].Trace))
			}
		}
	}
	return Verdict{NonTrivial: randomDraws(c) >= 3}
}

func TestC09Child(t *testing.T) {
	path := os.Getenv("VERIF_C09_CHILD")
	if path == "" {
		t.Skip("only run as a child process")
	}
	raw, err := os.ReadFile(path)
	if err != nil {
		t.Fatal(err)
	}
	var c c09Case
	if err := json.Unmarshal(raw, &c); err != nil {
		t.Fatal(err)
	}
	if os.Getenv("VERIF_C09_WARMUP") == "1" {
		// "whatever ran before": unrelated runners and the global source are used first
		for i := 0; i < 3; i++ {
			c09Drive(c, fmt.Sprint("warm", i))
			mrand.Int()
		}
	}
	for _, seed := range append([]string{c.Seed}, c.MoreSeeds...) {
		run, err := c09Drive(c, seed)
		if err != nil {
			t.Fatal(err)
		}
		out, _ := json.Marshal(run)
		fmt.Printf("C09TRACE %s\n", out)
	}
}

var c09Cross = Register(Prop[c09Case]{ID: "C09", Name: "cross-process",
	Gen: func(t *rapid.T) c09Case {
		c := genC09(t)
		for i := 0; i < 7; i++ {
			c.MoreSeeds = append(c.MoreSeeds, genSeedLegal(t))
		}
		return c
	},
	Run: runC09CrossProcess, Render: c09Determinism.Render})

func TestC09CrossProcess(t *testing.T) { Check(t, c09Cross) }

// ---------------------------------------------------------------------------------------
// ranges of the draws, for every seed

type c09Draw struct {
	Fn string `json:"fn"`
	A  mval   `json:"a"`
	B  mval   `json:"b"`
}

type c09RangeCase struct {
	Seed  string    `json:"seed"`
	Draws []c09Draw `json:"draws"`
}

func runC09Ranges(c c09RangeCase) Verdict {
	var b strings.Builder
	b.WriteString("title: Start\n---\n")
	vars := map[string]mval{}
	for i := range c.Draws {
		d := &c.Draws[i]
		d.A.fix()
		d.B.fix()
		vars[fmt.Sprintf("a%d", i)] = d.A
		vars[fmt.Sprintf("b%d", i)] = d.B
		switch d.Fn {
		case "dice":
			fmt.Fprintf(&b, "{cap(dice($a%d))}\n", i)
		case "random_range":
			fmt.Fprintf(&b, "{cap(random_range($a%d, $b%d))}\n", i, i)
		default:
			b.WriteString("{cap(random())}\n")
		}
	}
	b.WriteString("===\n")
	run := func() ([]mval, string) {
		storer := variable.NewInMemoryStorer()
		loadStore(storer, vars)
		dr, err := ysgo.NewDialogueRunner(storer, c.Seed, strings.NewReader(b.String()))
		if err != nil {
			return nil, "load: " + err.Error()
		}
		var captured []mval
		dr.AddFunction("cap", func(args []*variable.Value) (*variable.Value, error) {
			captured = append(captured, toMvals(args)...)
			return variable.NewNumber(0), nil
		})
		h := &host{dr: dr, storer: newRecStorer()}
		for range c.Draws {
			if ev := h.step(0); ev.K != "line" {
				return nil, fmt.Sprintf("draw failed: %s", ev)
			}
		}
		return captured, ""
	}
	first, problem := run()
	if problem != "" {
		return failf("seed %q, draws %s: %s", c.Seed, showDraws(c.Draws), problem)
	}
	if len(first) != len(c.Draws) {
		return failf("captured %d values for %d draws", len(first), len(c.Draws))
	}
	distinct := map[float64]bool{}
	for i, d := range c.Draws {
		v := first[i]
		if v.T != 'n' {
			return failf("seed %q: %s returned %v", c.Seed, d.Fn, v)
		}
		distinct[v.N] = true
		switch d.Fn {
		case "dice":
			if v.N != math.Trunc(v.N) || v.N < 1 || v.N > d.A.N {
				return failf("seed %q: dice(%v) = %v is not an integer in [1, %v]", c.Seed, d.A.N, v.N, d.A.N)
			}
		case "random_range":
			if v.N != math.Trunc(v.N) || v.N < d.A.N || v.N > d.B.N {
				return failf("seed %q: random_range(%v, %v) = %v is not an integer in the range", c.Seed, d.A.N, d.B.N, v.N)
			}
		default:
			if !(v.N >= 0 && v.N < 1) {
				return failf("seed %q: random() = %v is not in [0,1)", c.Seed, v.N)
			}
		}
	}
	second, problem := run()
	if problem != "" {
		return failf("second run: %s", problem)
	}
	for i := range first {
		if !sameVal(first[i], second[i]) {
			return failf("seed %q: draw %d (%s) gave %v in the first run and %v in the second", c.Seed, i, c.Draws[i].Fn, first[i], second[i])
		}
	}
	cls := []string{}
	for _, d := range c.Draws {
		cls = append(cls, "fn="+d.Fn)
		if (d.Fn == "dice" && d.A.N == 1) || (d.Fn == "random_range" && d.A.N == d.B.N) {
			cls = append(cls, "degenerate-bounds")
		}
	}
	return Verdict{NonTrivial: len(c.Draws) >= 3 && len(distinct) >= 2, Classes: cls}
}

func showDraws(ds []c09Draw) string {
	parts := make([]string, len(ds))
	for i, d := range ds {
		switch d.Fn {
		case "dice":
			parts[i] = fmt.Sprintf("dice(%v)", d.A.N)
		case "random_range":
			parts[i] = fmt.Sprintf("random_range(%v, %v)", d.A.N, d.B.N)
		default:
			parts[i] = "random()"
		}
	}
	return strings.Join(parts, " ")
}

var c09Ranges = Register(Prop[c09RangeCase]{
	ID: "C09", Name: "ranges",
	Gen: func(t *rapid.T) c09RangeCase {
		c := c09RangeCase{Seed: rapid.SampledFrom([]string{"0", "1", "a", "z", "seed", "zzzzzzzzzzzz", "0000", "9"}).Draw(t, "fixed")}
		if rapid.Bool().Draw(t, "anyseed") {
			c.Seed = genSeedLegal(t)
		}
		n := rapid.IntRange(1, 12).Draw(t, "draws")
		intIn := func(lo, hi int64, label string) float64 {
			if rapid.IntRange(0, 3).Draw(t, "small"+label) != 0 {
				return float64(rapid.Int64Range(max(lo, -50), min(hi, 50)).Draw(t, label))
			}
			return float64(rapid.Int64Range(lo, hi).Draw(t, label))
		}
		for i := 0; i < n; i++ {
			switch rapid.IntRange(0, 2).Draw(t, "fn") {
			case 0:
				if rapid.IntRange(0, 4).Draw(t, "hugedice") == 0 {
					// spans that are a large fraction of 2^64: a bounded draw that rejects and redraws does so often
					huge := rapid.SampledFrom([]float64{6.2e18, 4.7e18, 9e18, 3e18, 9223372036854774784, 6148914691236517205, 1e17}).Draw(t, "sides")
					c.Draws = append(c.Draws, c09Draw{Fn: "dice", A: numVal(huge), B: numVal(0)})
					break
				}
				c.Draws = append(c.Draws, c09Draw{Fn: "dice", A: numVal(intIn(1, 1<<53-1, "n")), B: numVal(0)})
			case 1:
				a := intIn(-(1 << 52), 1<<52, "a")
				if rapid.IntRange(0, 4).Draw(t, "hugerange") == 0 {
					// (the whole range fits an int64 and so does its size)
					pair := rapid.SampledFrom([][2]float64{{0, 6.2e18}, {-3.1e18, 3.1e18}, {-4e18, 7e17}, {1, 9e18}, {-9e18, 0}, {-9e18, -2.8e18}, {-1e18, 5.2e18}}).Draw(t, "bounds")
					c.Draws = append(c.Draws, c09Draw{Fn: "random_range", A: numVal(pair[0]), B: numVal(pair[1])})
					break
				}
				b := a + float64(rapid.SampledFrom([]int64{0, 0, 1, 2, 5, 100, 1 << 20, 1 << 40}).Draw(t, "span"))
				c.Draws = append(c.Draws, c09Draw{Fn: "random_range", A: numVal(a), B: numVal(math.Min(b, 1<<52))})
			default:
				c.Draws = append(c.Draws, c09Draw{Fn: "random", A: numVal(0), B: numVal(0)})
			}
		}
		return c
	},
	Run: runC09Ranges,
	Render: func(c c09RangeCase) any {
		for i := range c.Draws {
			c.Draws[i].A.fix()
			c.Draws[i].B.fix()
		}
		return map[string]any{"seed": c.Seed, "draws": showDraws(c.Draws)}
	},
})

func TestC09Ranges(t *testing.T) { Check(t, c09Ranges) }

// ---------------------------------------------------------------------------------------
// ranges at volume: values at the very edge of a range are rare (a draw that rounds up to the excluded upper bound,
// say), so the range statement is also checked over hundreds of thousands of draws per case, inside the script itself

type c09VolumeCase struct {
	Seed  string `json:"seed"`
	Sides int    `json:"sides"`
	Lo    int    `json:"lo"`
	Span  int    `json:"span"`
	Laps  int    `json:"laps"` // in units of 200 evaluations of the 64-draw condition
}

func runC09Volume(c c09VolumeCase) Verdict {
	var terms []string
	for i := 0; i < 64; i++ {
		switch i {
		case 10, 40:
			terms = append(terms, "random() < 0")
		case 20:
			terms = append(terms, fmt.Sprintf("dice(%d) > %d", c.Sides, c.Sides), fmt.Sprintf("dice(%d) < 1", c.Sides))
		case 30:
			terms = append(terms, fmt.Sprintf("random_range(%d, %d) > %d", c.Lo, c.Lo+c.Span, c.Lo+c.Span), fmt.Sprintf("random_range(%d, %d) < %d", c.Lo, c.Lo+c.Span, c.Lo))
		default:
			terms = append(terms, "random() >= 1")
		}
	}
	src := "title: Start\n---\n<<set $i to 0>>\n<<jump Loop>>\n===\ntitle: Loop\n---\n<<if " + strings.Join(terms, " or ") +
		">>\nout of range\n<<endif>>\n<<set $i += 1>>\n<<if $i % 200 == 0>>\ntick\n<<endif>>\n<<jump Loop>>\n===\n"
	dr, err := ysgo.NewDialogueRunner(nil, c.Seed, strings.NewReader(src))
	if err != nil {
		return failf("script does not load with seed %q: %v", c.Seed, err)
	}
	for lap := 0; lap < c.Laps; lap++ {
		el, err := dr.Next(0)
		if err != nil {
			return failf("seed %q: Next failed: %v\nscript:\n%s", c.Seed, err, src)
		}
		if el == nil || el.Line == nil || el.Line.Text != "tick" {
			return failf("seed %q: between evaluation %d and %d of the condition one of its draws left its range (random() in [0,1), dice(n) in [1,n], random_range(a,b) in [a,b]): the script showed %s instead of the tick line\nscript:\n%s",
				c.Seed, lap*200, (lap+1)*200, describeElement(el), src)
		}
	}
	return Verdict{NonTrivial: c.Laps >= 5, Classes: []string{fmt.Sprintf("draws=%d", c.Laps*200*len(terms))}}
}

var c09Volume = Register(Prop[c09VolumeCase]{
	ID: "C09", Name: "ranges-at-volume",
	Gen: func(t *rapid.T) c09VolumeCase {
		return c09VolumeCase{Seed: genSeedLegal(t), Sides: rapid.SampledFrom([]int{1, 2, 3, 6, 20, 100}).Draw(t, "sides"), Lo: rapid.IntRange(-5, 5).Draw(t, "lo"),
			Span: rapid.SampledFrom([]int{0, 1, 2, 7}).Draw(t, "span"), Laps: envInt("VERIF_C09_LAPS", 20)}
	},
	Run: runC09Volume,
})

func TestC09Volume(t *testing.T) { Check(t, c09Volume) }

func describeElement(el *ysgo.DialogueElement) string {
	switch {
	case el == nil:
		return "the end of the dialogue"
	case el.Line != nil:
		return fmt.Sprintf("the line %q", el.Line.Text)
	}
	return fmt.Sprintf("%d options", len(el.Options))
}

// ---------------------------------------------------------------------------------------
// one rule for arguments that are not whole: how dice and random_range read them is not stated (the library truncates),
// but it is one rule - the same for 1.5 as for a value a few ulps below 2. With tiny ranges 40 draws show the rule.

type c09RuleCase struct {
	Seed string `json:"seed"`
}

func runC09Rule(c c09RuleCase) Verdict {
	args := []float64{1.9999999999999998, 1.5, 1.0000000000000002, 1.25, 1.9999999995, 1.75}
	var b strings.Builder
	b.WriteString("title: Start\n---\n")
	for range 40 {
		for i := range args {
			fmt.Fprintf(&b, "{cap(\"dice%d\", dice($a%d))}{cap(\"range%d\", random_range(1, $a%d))}", i, i, i, i)
		}
		b.WriteString("\n")
	}
	b.WriteString("===\n")
	storer := variable.NewInMemoryStorer()
	for i, a := range args {
		storer.SetNumberValue(fmt.Sprintf("a%d", i), a)
	}
	dr, err := ysgo.NewDialogueRunner(storer, c.Seed, strings.NewReader(b.String()))
	if err != nil {
		return failf("script does not load: %v", err)
	}
	maxSeen := map[string]float64{}
	dr.AddFunction("cap", func(a []*variable.Value) (*variable.Value, error) {
		if len(a) == 2 && a[0].String != nil && a[1].Number != nil {
			maxSeen[*a[0].String] = math.Max(maxSeen[*a[0].String], *a[1].Number)
		}
		return variable.NewString(""), nil
	})
	h := &host{dr: dr, storer: newRecStorer()}
	for range 40 {
		if ev := h.step(0); ev.K == "err" {
			return Verdict{Discard: "the library refuses arguments that are not whole (allowed)"}
		} else if ev.K != "line" {
			return failf("seed %q: unexpected element %s", c.Seed, ev)
		}
	}
	for _, fn := range []string{"dice", "range"} {
		var fitting []string
		for name, mode := range c16Modes {
			ok := true
			for i, a := range args {
				if maxSeen[fmt.Sprintf("%s%d", fn, i)] != mode(a) {
					ok = false
				}
			}
			if ok {
				fitting = append(fitting, name)
			}
		}
		if len(fitting) == 0 {
			seen := make([]string, len(args))
			for i, a := range args {
				seen[i] = fmt.Sprintf("%v -> up to %v", a, maxSeen[fmt.Sprintf("%s%d", fn, i)])
			}
			what := "dice(x)"
			if fn == "range" {
				what = "random_range(1, x)"
			}
			return failf("seed %q: largest of 40 draws of %s for each x: %s - no single rule (truncation, floor, ceiling, nearest) explains all of them", c.Seed, what, strings.Join(seen, "; "))
		}
	}
	return Verdict{NonTrivial: true}
}

var c09Rule = Register(Prop[c09RuleCase]{
	ID: "C09", Name: "argument-rule", Run: runC09Rule,
	Gen: func(t *rapid.T) c09RuleCase { return c09RuleCase{Seed: genSeedLegal(t)} },
})

func TestC09ArgumentRule(t *testing.T) { Check(t, c09Rule) }

// ---------------------------------------------------------------------------------------
// whatever ran before: scripts that agree in length and in a 32-bit checksum with a script loaded earlier in the process

type c09CollisionCase struct {
	Hash string `json:"hash"` // crc32-ieee, crc32-castagnoli, adler32, fnv32a, fnv32
	Salt int    `json:"salt"`
}

func runC09Collision(c c09CollisionCase) Verdict {
	sum := map[string]func([]byte) uint32{
		"crc32-ieee":       crc32.ChecksumIEEE,
		"crc32-castagnoli": func(b []byte) uint32 { return crc32.Checksum(b, crc32.MakeTable(crc32.Castagnoli)) },
		"adler32":          adler32.Checksum,
		"fnv32a":           func(b []byte) uint32 { h := fnv.New32a(); h.Write(b); return h.Sum32() },
		"fnv32":            func(b []byte) uint32 { h := fnv.New32(); h.Write(b); return h.Sum32() },
	}[c.Hash]
	mk := func(which string, n int) string {
		// two families of the same length: a comment holds the counter
		// (the counter is spread over 13 characters by a mixing function: a plain counter only changes a few neighbouring bits,
		// and a CRC, being linear, cannot collide on differences that small)
		x := uint64(n)*0x9e3779b97f4a7c15 + uint64(c.Salt)*0xbf58476d1ce4e5b9 + uint64(which[0])
		x ^= x >> 30
		x *= 0xbf58476d1ce4e5b9
		x ^= x >> 27
		x *= 0x94d049bb133111eb
		x ^= x >> 31
		word := strconv.FormatUint(x, 36)
		word = strings.Repeat("0", 13-len(word)) + word
		return fmt.Sprintf("title: Start\n---\n// %s\nthis is script %s\n<<set $x to dice(%d)>>\nvalue {$x}\n===\n", word, which, map[string]int{"A": 6, "B": 9}[which])
	}
	seen := map[uint32]int{}
	const family = 1 << 17
	for n := 0; n < family; n++ {
		seen[sum([]byte(mk("A", n)))] = n
	}
	a, b := -1, -1
	for n := 0; n < family; n++ {
		if m, ok := seen[sum([]byte(mk("B", n)))]; ok {
			a, b = m, n
			break
		}
	}
	if a < 0 {
		return Verdict{Discard: "no collision among 2^17 x 2^17 candidates"}
	}
	sa, sb := mk("A", a), mk("B", b)
	if len(sa) != len(sb) || sum([]byte(sa)) != sum([]byte(sb)) || sa == sb {
		return Verdict{Discard: "internal: not a collision"}
	}
	run := func(src string) (string, error) {
		h, err := newHost([]string{src}, "abc", nil)
		if err != nil {
			return "", err
		}
		h.drive(nil, nil, 5, false)
		return showTrace(h.trace), nil
	}
	first, err := run(sa)
	if err != nil {
		return failf("script does not load: %v", err)
	}
	second, err := run(sb)
	if err != nil {
		return failf("second script does not load: %v", err)
	}
	if !strings.Contains(first, "this is script A") || !strings.Contains(second, "this is script B") {
		return failf("two scripts of the same length (%d bytes) and the same %s checksum (%08x), loaded one after the other in one process: the second runs as%s\nfirst:\n%s\nsecond:\n%s", len(sa), c.Hash, sum([]byte(sa)), "\n"+second, sa, sb)
	}
	return Verdict{NonTrivial: true, Classes: []string{"hash=" + c.Hash}}
}

var c09Collision = Register(Prop[c09CollisionCase]{ID: "C09", Name: "checksum-collisions", Run: runC09Collision})

func TestC09ChecksumCollisions(t *testing.T) {
	Enumerate(t, c09Collision, true, "for each of CRC-32 (IEEE, Castagnoli), Adler-32, FNV-1 and FNV-1a (32 bit): two different scripts of the same length and checksum, found by a birthday search, loaded and run one after the other in one process",
		func(yield func(c09CollisionCase) bool) {
			for _, h := range []string{"crc32-ieee", "crc32-castagnoli", "adler32", "fnv32a", "fnv32"} {
				for salt := 0; salt < 2; salt++ {
					if !yield(c09CollisionCase{Hash: h, Salt: salt}) {
						return
					}
				}
			}
		})
}
