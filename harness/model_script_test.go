//go:build verif

package harness

// Script AST, printer (canonical layout and tape-driven layouts) and reference interpreter.
// The interpreter is written from the statements of C01, C03, C11 and C12: recursive descent over
// statement lists with next/jump/stop signals, deliberately a different shape from the runner's
// explicit stack of statement queues.

import (
	"fmt"
	"math"
	"math/big"
	"strconv"
	"strings"
)

type Script struct {
	Files [][]*Node `json:"files"`
	// FileTags: per file, hashtags written before its first node (they belong to the file, not to any line)
	FileTags [][]string `json:"file_tags,omitempty"`
}

type Node struct {
	Title    string      `json:"title"`
	Tracking string      `json:"tracking,omitempty"` // "", "never", "always"
	Headers  [][2]string `json:"headers,omitempty"`
	Body     []*Stmt     `json:"body"`
}

type TextPart struct {
	S string `json:"s,omitempty"`
	E *Expr  `json:"e,omitempty"`
}

type Stmt struct {
	K       string     `json:"k"` // line, opts, if, set, declare, jump, jumpx, stop, call, cmd
	Text    []TextPart `json:"text,omitempty"`
	Tags    []string   `json:"tags,omitempty"`
	Opts    []*Opt     `json:"opts,omitempty"`
	Clauses []*Clause  `json:"clauses,omitempty"`
	HasElse bool       `json:"has_else,omitempty"`
	Else    []*Stmt    `json:"else,omitempty"`
	Var     string     `json:"var,omitempty"`
	Op      string     `json:"op,omitempty"` // = += -= *= /= %=
	E       *Expr      `json:"e,omitempty"`
	Target  string     `json:"target,omitempty"`
	Fn      string     `json:"fn,omitempty"`
	Args    []*Expr    `json:"args,omitempty"`
	Words   []TextPart `json:"words,omitempty"` // cmd: name and arguments (literal word or {expression})
	Note    string     `json:"note,omitempty"`  // generator's label (classification only)
}

type Opt struct {
	Text []TextPart `json:"text"`
	Tags []string   `json:"tags,omitempty"`
	Cond *Expr      `json:"cond,omitempty"`
	Body []*Stmt    `json:"body,omitempty"`
}

type Clause struct {
	Cond *Expr   `json:"cond"`
	Body []*Stmt `json:"body,omitempty"`
}

func (s *Script) allNodes() []*Node {
	var out []*Node
	for _, f := range s.Files {
		out = append(out, f...)
	}
	return out
}

// ---------------------------------------------------------------------------------------
// printer

// Layout describes one rendering of a script. The zero tape with Unit 4 is the canonical layout.
type Layout struct {
	Unit      int  `json:"unit"`              // spaces per nesting level; 0 = one tab per level; -1 = varied widths from the tape
	CRLF      bool `json:"crlf,omitempty"`    // line ends
	FlatIf    bool `json:"flat_if,omitempty"` // if-bodies not indented
	NoFinalNL bool `json:"no_final_nl,omitempty"`
	// JumpBlanks: extra blanks between "jump" and its destination. Never generated (known finding of C08: the
	// lexer mode entered after "jump " has no whitespace rule); only the stored replay case sets it.
	JumpBlanks int     `json:"jump_blanks,omitempty"`
	Tape       []uint8 `json:"tape,omitempty"` // consumed in order by every layout decision; exhausted = 0 = canonical choice
	// LongNoise: length of the first comment line at column 0 and of the first whitespace-only line (0: ordinary)
	LongNoise int `json:"long_noise,omitempty"`
	// MixedEnds: each line gets its own line end (LF, CRLF, bare CR)
	MixedEnds bool `json:"mixed_ends,omitempty"`
	// AlignBlock > 0: a comment line is inserted so that the first multi-byte character of each file lies across a multiple of
	// AlignBlock bytes (its first AlignSplit+1 bytes before the boundary): readers that work block-wise see it in two pieces
	AlignBlock int `json:"align_block,omitempty"`
	AlignSplit int `json:"align_split,omitempty"`
	// TextBlanks: blanks between literal line text and a trailing comment, and trailing blanks after line text. The parsed
	// tree keeps such blanks in the text token (the repository's own tree snapshots pin that), the rendered element is
	// stripped of them: with this flag only what the dialogue shows is compared, not the trees.
	TextBlanks bool `json:"text_blanks,omitempty"`
	longDone   [2]bool
	pos        int
	used       map[string]int
}

var canonicalLayout = Layout{Unit: 4}

func (l *Layout) next(kind string) int {
	if l.pos >= len(l.Tape) {
		return 0
	}
	v := int(l.Tape[l.pos])
	l.pos++
	if v != 0 {
		if l.used == nil {
			l.used = map[string]int{}
		}
		l.used[kind]++
	}
	return v
}

type printer struct {
	lay    *Layout
	b      strings.Builder
	indent []string // stack of indentation prefixes
	style  *exprStyle
}

func newPrinter(lay *Layout) *printer {
	p := &printer{lay: lay, indent: []string{""}}
	p.style = &exprStyle{
		spell: func(op string, stored int) string {
			sp := opSpellings[op]
			choice := stored + lay.next("spelling")
			return sp[((choice%len(sp))+len(sp))%len(sp)]
		},
		extra: func() bool { return lay.next("parens")%4 == 1 },
		blank: func() string {
			if lay.next("expr-blank")%4 == 1 {
				return "  "
			}
			return " "
		},
	}
	return p
}

func (p *printer) cur() string { return p.indent[len(p.indent)-1] }

func (p *printer) push() {
	var add string
	switch {
	case p.lay.Unit == -2:
		// the kind of indentation changes from one nesting level to the next: a block indented with blanks holds one indented
		// with tabs only, and so on (no line mixes the two; a tab counts 8 columns)
		cols := 0
		for _, ch := range p.cur() {
			if ch == '\t' {
				cols += 8
			} else {
				cols++
			}
		}
		if len(p.indent)%2 == 1 {
			p.indent = append(p.indent, strings.Repeat("\t", cols/8+1))
		} else {
			p.indent = append(p.indent, strings.Repeat(" ", cols+1+p.lay.next("width")%4))
		}
		p.lay.note("indent-kind-per-level")
		return
	case p.lay.Unit == 0:
		add = "\t"
	case p.lay.Unit < 0:
		add = strings.Repeat(" ", 1+p.lay.next("width")%8)
	default:
		add = strings.Repeat(" ", p.lay.Unit)
	}
	p.indent = append(p.indent, p.cur()+add)
}

func (p *printer) pop() { p.indent = p.indent[:len(p.indent)-1] }

// noise emits blank / whitespace-only / comment lines at a point between two statements.
func (p *printer) noise() {
	for i := 0; i < 2; i++ {
		switch p.lay.next("noise") % 12 {
		case 1:
			p.b.WriteString("\n")
			p.lay.note("blank-line")
		case 2:
			if p.lay.LongNoise > 0 && !p.lay.longDone[0] {
				p.lay.longDone[0] = true
				ch := " "
				if p.lay.Unit == 0 {
					ch = "\t"
				}
				p.b.WriteString(strings.Repeat(ch, p.lay.LongNoise) + "\n")
				p.lay.note("whitespace-only-line-long")
				break
			}
			if p.lay.Unit == 0 {
				p.b.WriteString("\t\t\n")
			} else {
				p.b.WriteString("   \n")
			}
			p.lay.note("whitespace-only-line")
		case 3:
			if p.lay.LongNoise > 0 && !p.lay.longDone[1] {
				p.lay.longDone[1] = true
				p.b.WriteString("// " + strings.Repeat("long comment ", p.lay.LongNoise/13+1) + "\n")
				p.lay.note("comment-line-long")
				break
			}
			p.b.WriteString("// comment at column 0\n")
			p.lay.note("comment-line-col0")
		case 4:
			p.b.WriteString(p.cur() + "// comment at block indentation\n")
			p.lay.note("comment-line-block")
		case 5:
			deeper := "    "
			if p.lay.Unit == 0 {
				deeper = "\t"
			}
			p.b.WriteString(p.cur() + deeper + "// comment deeper than the block\n")
			p.lay.note("comment-line-deeper")
		case 7:
			p.b.WriteString(" \t \n")
			p.lay.note("whitespace-only-line-mixed")
		case 9:
			p.b.WriteString("\t  // comment after tabs and blanks\n")
			p.lay.note("comment-line-mixed-indent")
		case 6:
			if len(p.indent) >= 2 {
				p.b.WriteString(p.indent[len(p.indent)-2] + "// comment at the enclosing block's indentation\n")
				p.lay.note("comment-line-shallower")
			}
		default:
			return
		}
	}
}

func (l *Layout) note(kind string) {
	if l.used == nil {
		l.used = map[string]int{}
	}
	l.used[kind]++
}

// trailing returns what follows the statement on its line. In text mode (the line ends with literal text or an
// inline expression) blanks before a comment would be part of the line's text - the repository's own tree snapshots
// pin that - so there the comment is attached directly and no trailing blanks are produced.
func (p *printer) trailing(textMode bool) string {
	switch p.lay.next("trailing") % 8 {
	case 1:
		p.lay.note("trailing-comment")
		if textMode && p.lay.TextBlanks {
			p.lay.note("blank-before-trailing-comment")
			return "  // trailing comment"
		}
		if textMode {
			return "// trailing comment"
		}
		return " // trailing comment"
	case 2:
		if !textMode || p.lay.TextBlanks {
			p.lay.note("trailing-blanks")
			return "  "
		}
	}
	return ""
}

// cb returns an optional extra blank inside a command.
func (p *printer) cb() string {
	switch p.lay.next("command-blank") % 7 {
	case 1:
		p.lay.note("command-blank")
		return " "
	case 2:
		p.lay.note("command-blank")
		return "   "
	}
	return ""
}

func (p *printer) line(s string) { p.lineMode(s, false) }

func (p *printer) lineMode(s string, textMode bool) {
	p.b.WriteString(p.cur() + s + p.trailing(textMode) + "\n")
}

func (p *printer) text(parts []TextPart) string {
	var b strings.Builder
	for _, part := range parts {
		if part.E != nil {
			b.WriteString("{" + p.cb() + printExpr(part.E, p.style) + p.cb() + "}")
		} else {
			b.WriteString(part.S)
		}
	}
	return b.String()
}

func (p *printer) tags(tags []string) string {
	s := ""
	for _, t := range tags {
		s += " #" + t
	}
	return s
}

func (p *printer) cmd(keyword string, rest string) string {
	return "<<" + p.cb() + keyword + " " + p.cb() + rest + p.cb() + ">>"
}

func (p *printer) body(stmts []*Stmt) {
	for _, s := range stmts {
		p.noise()
		p.stmt(s)
	}
	p.noise()
}

func assignSpelling(op string, p *printer) string {
	if op == "=" {
		if p.lay.next("spelling")%2 == 1 {
			p.lay.note("spelling")
			return "="
		}
		return "to"
	}
	return op
}

func (p *printer) stmt(s *Stmt) {
	switch s.K {
	case "line":
		l := p.text(s.Text)
		if s.E != nil { // a condition on a plain line (ignored by the language)
			l += " " + p.cmd("if", printExpr(s.E, p.style))
		}
		p.lineMode(l+p.tags(s.Tags), s.E == nil && len(s.Tags) == 0)
	case "opts":
		for i, o := range s.Opts {
			if i > 0 {
				p.noise()
			}
			l := "->" + " " + p.cb() + p.text(o.Text)
			if o.Cond != nil {
				l += " " + p.cmd("if", printExpr(o.Cond, p.style))
			}
			p.lineMode(l+p.tags(o.Tags), o.Cond == nil && len(o.Tags) == 0)
			if len(o.Body) > 0 {
				p.push()
				p.body(o.Body)
				p.pop()
			}
		}
	case "if":
		nest := func(body []*Stmt) {
			if p.lay.FlatIf {
				p.body(body)
				return
			}
			p.push()
			p.body(body)
			p.pop()
		}
		for i, c := range s.Clauses {
			kw := "if"
			if i > 0 {
				kw = "elseif"
			}
			p.line(p.cmd(kw, printExpr(c.Cond, p.style)))
			nest(c.Body)
		}
		if s.HasElse {
			p.line("<<" + p.cb() + "else" + p.cb() + ">>")
			nest(s.Else)
		}
		p.line("<<" + p.cb() + "endif" + p.cb() + ">>")
	case "set":
		p.line(p.cmd("set", "$"+s.Var+" "+p.cb()+assignSpelling(s.Op, p)+" "+p.cb()+printExpr(s.E, p.style)))
	case "declare":
		p.line(p.cmd("declare", "$"+s.Var+" "+p.cb()+assignSpelling("=", p)+" "+p.cb()+printExprInner(s.E, nil)))
	case "jump":
		// exactly one blank between "jump" and the destination: more is a known finding (C08)
		p.line("<<" + p.cb() + "jump " + strings.Repeat(" ", p.lay.JumpBlanks) + s.Target + p.cb() + ">>")
	case "jumpx":
		p.line("<<" + p.cb() + "jump {" + p.cb() + printExpr(s.E, p.style) + p.cb() + "}" + p.cb() + ">>")
	case "stop":
		p.line("<<stop>>")
	case "call":
		p.line(p.cmd("call", printExprInner(&Expr{K: "call", V: s.Fn, A: s.Args}, p.style)))
	case "cmd":
		var b strings.Builder
		b.WriteString("<<")
		for i, w := range s.Words {
			if i > 0 {
				b.WriteString(" " + p.cb())
			}
			if w.E != nil {
				b.WriteString("{" + printExpr(w.E, p.style) + "}")
			} else {
				b.WriteString(w.S)
			}
		}
		b.WriteString(p.cb() + ">>")
		p.line(b.String())
	default:
		panic("printer: unknown statement kind " + s.K)
	}
}

// renderScript prints every file of the script in the given layout.
func renderScript(sc *Script, lay *Layout) []string {
	lay.pos = 0
	lay.longDone = [2]bool{}
	lay.used = nil
	var out []string
	for fi, f := range sc.Files {
		p := newPrinter(lay)
		if fi < len(sc.FileTags) {
			for _, tag := range sc.FileTags[fi] {
				p.b.WriteString("#" + tag + "\n")
			}
		}
		for _, n := range f {
			if n.Title != "" { // (a node without a title header can only be the start node)
				p.b.WriteString("title: " + n.Title + "\n")
			}
			if n.Tracking != "" {
				p.b.WriteString("tracking: " + n.Tracking + "\n")
			}
			for _, h := range n.Headers {
				p.b.WriteString(h[0] + ": " + h[1] + "\n")
			}
			p.b.WriteString("---\n")
			p.body(n.Body)
			p.b.WriteString("===\n")
		}
		s := p.b.String()
		if lay.NoFinalNL {
			s = strings.TrimSuffix(s, "\n")
		}
		if lay.CRLF {
			s = strings.ReplaceAll(s, "\n", "\r\n")
		}
		if lay.MixedEnds {
			// every line chooses its own line end: LF, CRLF or a bare CR (the lexer takes all three)
			var b strings.Builder
			for _, line := range strings.SplitAfter(s, "\n") {
				if strings.HasSuffix(line, "\n") {
					body := strings.TrimSuffix(strings.TrimSuffix(line, "\n"), "\r")
					b.WriteString(body + []string{"\n", "\r\n", "\r", "\n", "\r\n"}[lay.next("lineend")%5])
				} else {
					b.WriteString(line)
				}
			}
			s = b.String()
			lay.note("mixed-line-ends")
		}
		if lay.AlignBlock > 0 {
			s = alignMultiByte(s, lay.AlignBlock, lay.AlignSplit, lay.CRLF)
			lay.note("aligned-to-block")
		}
		out = append(out, s)
	}
	return out
}

// alignMultiByte inserts one comment line in front of the line that holds the first multi-byte character of s (never a
// header line) so that this character straddles a multiple of block bytes.
func alignMultiByte(s string, block, split int, crlf bool) string {
	p := strings.IndexFunc(s, func(r rune) bool { return r >= 0x80 })
	body := strings.Index(s, "---")
	if p < 0 || body < 0 || p < body {
		return s
	}
	lineStart := strings.LastIndex(s[:p], "\n") + 1
	nl := "\n"
	if crlf {
		nl = "\r\n"
	}
	want := block - 1 - split // offset of the character's first byte within its block
	pad := ((want-p)%block + block) % block
	for pad < len("//")+len(nl) {
		pad += block
	}
	return s[:lineStart] + "//" + strings.Repeat("x", pad-2-len(nl)) + nl + s[lineStart:]
}

func renderCanonical(sc *Script) []string {
	lay := canonicalLayout
	return renderScript(sc, &lay)
}

// ---------------------------------------------------------------------------------------
// events

type OptEv struct {
	Text     string   `json:"text"`
	Tags     []string `json:"tags,omitempty"`
	Disabled bool     `json:"disabled,omitempty"`
}

type Ev struct {
	K    string   `json:"k"` // line, opts, err, end, wait, panic
	Node string   `json:"node,omitempty"`
	Text string   `json:"text,omitempty"`
	Tags []string `json:"tags,omitempty"`
	Opts []OptEv  `json:"opts,omitempty"`
}

func (e Ev) String() string {
	switch e.K {
	case "line":
		return fmt.Sprintf("[%s] line %q %v", e.Node, e.Text, e.Tags)
	case "opts":
		parts := make([]string, len(e.Opts))
		for i, o := range e.Opts {
			parts[i] = fmt.Sprintf("%q%v", o.Text, o.Tags)
			if o.Disabled {
				parts[i] += "(disabled)"
			}
		}
		return fmt.Sprintf("[%s] options %s", e.Node, strings.Join(parts, " | "))
	case "err":
		return "error " + e.Text
	case "panic":
		return "PANIC " + e.Text
	}
	return e.K
}

func sameEv(a, b Ev) bool {
	if a.K != b.K {
		return false
	}
	if a.K == "err" || a.K == "end" || a.K == "wait" {
		return true
	}
	if a.Node != b.Node || a.Text != b.Text || !sameStrings(a.Tags, b.Tags) || len(a.Opts) != len(b.Opts) {
		return false
	}
	for i := range a.Opts {
		if a.Opts[i].Text != b.Opts[i].Text || a.Opts[i].Disabled != b.Opts[i].Disabled || !sameStrings(a.Opts[i].Tags, b.Opts[i].Tags) {
			return false
		}
	}
	return true
}

func sameStrings(a, b []string) bool {
	if len(a) != len(b) {
		return false
	}
	for i := range a {
		if a[i] != b[i] {
			return false
		}
	}
	return true
}

func showTrace(tr []Ev) string {
	var b strings.Builder
	for i, e := range tr {
		fmt.Fprintf(&b, "  %2d %s\n", i, e)
	}
	return b.String()
}

// diffTraces returns "" when equal, else a description of the first difference.
func diffTraces(want, got []Ev) string {
	n := min(len(want), len(got))
	for i := 0; i < n; i++ {
		if !sameEv(want[i], got[i]) {
			return fmt.Sprintf("element %d differs:\n  want %s\n  got  %s", i, want[i], got[i])
		}
	}
	if len(want) != len(got) {
		return fmt.Sprintf("traces have different lengths: want %d elements, got %d", len(want), len(got))
	}
	return ""
}

// ---------------------------------------------------------------------------------------
// reference interpreter

type sig int

const (
	sNext sig = iota
	sJump
	sStop
	sHalt
)

type interp struct {
	script  *Script
	store   map[string]mval
	visits  map[string]int
	cur     *Node
	choices []int
	nchoice int

	trace     []Ev
	visitLog  []map[string]int // copy of the visit counts at every emitted element
	fnLog     []string
	cmdLog    []string
	maxEv     int
	budget    int // consecutive non-yielding statements allowed
	idle      int
	stopAtErr bool

	diverged    bool
	restored    bool  // classification only
	startAt     *Node // start node (default: the first node of the first reader)
	lastStmt    *Stmt // the statement entered most recently (the one a following error belongs to)
	errNote     string
	nonJumpErrs int  // errors that do not come from a failing jump
	sawRandom   bool // a random built-in was evaluated successfully: its value is not modelled
	sawBoom     bool // a host function that panics was called
	jumpTo      *Node
	leftNodes   map[string]bool // nodes left through a jump at least once
	// statistics for classification
	stats flowStats
	depth int
}

type flowStats struct {
	maxChoiceDepth   int
	nestedJumps      int
	jumps            int
	elseTaken        int
	nestedStops      int
	stopWithRest     bool
	endAfterOptions  bool
	emptyBodyChoices int
	ifEndingInOpts   int
	errs             int
	lastWasOpts      bool
}

func newInterp(sc *Script, vars map[string]mval, choices []int, maxEv int) *interp {
	m := &interp{script: sc, store: map[string]mval{}, visits: map[string]int{}, choices: choices, maxEv: maxEv, budget: 300}
	for k, v := range vars {
		v.fix()
		m.store[k] = v
	}
	return m
}

func (m *interp) findNode(title string) *Node {
	for _, n := range m.script.allNodes() {
		if n.Title == title {
			return n
		}
	}
	return nil
}

func (m *interp) lookup(name string) (mval, bool) { v, ok := m.store[name]; return v, ok }

func (m *interp) callFn(name string, args []mval) (mval, bool, error) {
	switch name {
	case "visited", "visited_count":
		if len(args) != 1 || args[0].T != 's' {
			return mval{}, false, evalErrf("%s expects one string", name)
		}
		n := m.visits[args[0].S]
		if name == "visited" {
			return boolVal(n > 0), true, nil
		}
		return numVal(float64(n)), true, nil
	case "enter":
		if len(args) != 1 || args[0].T != 's' {
			return mval{}, false, evalErrf("enter expects one string")
		}
		m.fnLog = append(m.fnLog, fmt.Sprintf("enter(%s)@%d", args[0].S, len(m.trace)))
		return mval{}, false, nil
	case "noret":
		m.fnLog = append(m.fnLog, "noret()")
		return mval{}, false, nil
	case "clamp":
		return numVal(0), true, nil
	case "eoferr":
		// a host function that fails with an error wrapping io.EOF: an error like any other
		m.sawBoom = true
		return mval{}, false, evalErrf("the host function fails with io.EOF")
	case "boom":
		// a host function that panics: the panic is the host's own and travels up through Next
		m.sawBoom = true
		return mval{}, false, evalErrf("the host function panics")
	case "dice", "random_range", "random":
		if err := randomDomainError(name, args); err != nil {
			return mval{}, false, err
		}
		m.sawRandom = true
		return numVal(1), true, nil
	}
	return probeCall(name, args, &m.fnLog)
}

func (m *interp) emit(e Ev) bool {
	m.trace = append(m.trace, e)
	vc := make(map[string]int, len(m.visits))
	for k, v := range m.visits {
		vc[k] = v
	}
	m.visitLog = append(m.visitLog, vc)
	m.idle = 0
	m.stats.lastWasOpts = e.K == "opts"
	return len(m.trace) >= m.maxEv
}

func (m *interp) tick() bool {
	m.idle++
	if m.idle > m.budget {
		m.diverged = true
		return true
	}
	return false
}

func (m *interp) fail(err error) sig {
	m.stats.errs++
	if m.lastStmt == nil || (m.lastStmt.K != "jump" && m.lastStmt.K != "jumpx") {
		m.nonJumpErrs++
	}
	if m.errNote == "" && m.lastStmt != nil {
		m.errNote = m.lastStmt.K + ":" + m.lastStmt.Note
	}
	if m.emit(Ev{K: "err", Text: err.Error()}) || m.stopAtErr {
		return sHalt
	}
	return sNext
}

func (m *interp) renderText(parts []TextPart) (string, error) {
	for _, p := range parts {
		if p.E == nil && strings.Contains(p.S, "[broken") {
			return "", evalErrf("the text is not valid markup (unterminated marker)")
		}
	}
	var b strings.Builder
	for _, p := range parts {
		if p.E != nil {
			v, err := evalExpr(p.E, m)
			if err != nil {
				return "", err
			}
			b.WriteString(v.display())
		} else {
			b.WriteString(p.S)
		}
	}
	return strings.TrimSpace(b.String()), nil
}

func (m *interp) run() {
	nodes := m.script.allNodes()
	if len(nodes) == 0 {
		return
	}
	m.cur = nodes[0]
	if m.startAt != nil {
		m.cur = m.startAt
	}
	for {
		sg := m.block(m.cur.Body)
		switch sg {
		case sJump:
			m.cur = m.jumpTo
			continue
		case sNext, sStop:
			if sg == sNext && m.stats.lastWasOpts {
				m.stats.endAfterOptions = true
			}
			m.emit(Ev{K: "end"})
		}
		return
	}
}

func (m *interp) block(stmts []*Stmt) sig {
	for i, s := range stmts {
		sg := m.stmt(s)
		if sg == sStop && i < len(stmts)-1 {
			m.stats.stopWithRest = true
		}
		if sg != sNext {
			return sg
		}
	}
	return sNext
}

func (m *interp) nested(body []*Stmt) sig {
	m.depth++
	sg := m.block(body)
	m.depth--
	if sg == sStop && m.depth > 0 {
		m.stats.stopWithRest = true
	}
	return sg
}

func (m *interp) stmt(s *Stmt) sig {
	m.lastStmt = s
	switch s.K {
	case "line":
		text, err := m.renderText(s.Text)
		if err != nil {
			return m.fail(err)
		}
		if m.emit(Ev{K: "line", Node: m.cur.Title, Text: text, Tags: s.Tags}) {
			return sHalt
		}
		return sNext
	case "opts":
		ev := Ev{K: "opts", Node: m.cur.Title}
		for _, o := range s.Opts {
			text, err := m.renderText(o.Text)
			if err != nil {
				return m.fail(err)
			}
			disabled := false
			if o.Cond != nil {
				v, err := evalExpr(o.Cond, m)
				if err != nil {
					return m.fail(err)
				}
				if v.T != 'b' {
					return m.fail(evalErrf("option condition is a %s", v.typeName()))
				}
				disabled = !v.B
			}
			ev.Opts = append(ev.Opts, OptEv{Text: text, Tags: o.Tags, Disabled: disabled})
		}
		if m.emit(ev) {
			return sHalt
		}
		choice := 0
		if len(m.choices) > 0 {
			choice = m.choices[m.nchoice%len(m.choices)]
		}
		m.nchoice++
		choice = ((choice % len(s.Opts)) + len(s.Opts)) % len(s.Opts)
		body := s.Opts[choice].Body
		if len(body) == 0 {
			m.stats.emptyBodyChoices++
		}
		if m.depth+1 > m.stats.maxChoiceDepth {
			m.stats.maxChoiceDepth = m.depth + 1
		}
		return m.nested(body)
	case "if":
		if m.tick() {
			return sHalt
		}
		for i, c := range s.Clauses {
			v, err := evalExpr(c.Cond, m)
			if err != nil {
				return m.fail(err)
			}
			if v.T != 'b' {
				return m.fail(evalErrf("if condition is a %s", v.typeName()))
			}
			if v.B {
				if i > 0 {
					m.stats.elseTaken++
				}
				if n := len(c.Body); n > 0 && c.Body[n-1].K == "opts" {
					m.stats.ifEndingInOpts++
				}
				return m.nested(c.Body)
			}
		}
		if s.HasElse {
			m.stats.elseTaken++
			return m.nested(s.Else)
		}
		return sNext
	case "set", "declare":
		if m.tick() {
			return sHalt
		}
		if err := m.assign(s.Var, s.Op, s.E); err != nil {
			return m.fail(err)
		}
		return sNext
	case "jump", "jumpx":
		if m.tick() {
			return sHalt
		}
		target := s.Target
		if s.K == "jumpx" {
			v, err := evalExpr(s.E, m)
			if err != nil {
				return m.fail(err)
			}
			if v.T != 's' {
				return m.fail(evalErrf("jump destination is a %s", v.typeName()))
			}
			target = v.S
		}
		n := m.findNode(target)
		if n == nil {
			return m.fail(evalErrf("unknown node %q", target))
		}
		if m.cur.Tracking != "never" {
			m.visits[m.cur.Title]++
		}
		if m.leftNodes == nil {
			m.leftNodes = map[string]bool{}
		}
		m.leftNodes[m.cur.Title] = true
		m.stats.jumps++
		if m.depth > 0 {
			m.stats.nestedJumps++
		}
		m.jumpTo = n
		return sJump
	case "stop":
		if m.depth > 0 {
			m.stats.nestedStops++
		}
		return sStop
	case "call":
		if m.tick() {
			return sHalt
		}
		args := make([]mval, 0, len(s.Args))
		for _, a := range s.Args {
			v, err := evalExpr(a, m)
			if err != nil {
				return m.fail(err)
			}
			args = append(args, v)
		}
		if _, _, err := m.callFn(s.Fn, args); err != nil {
			return m.fail(err)
		}
		return sNext
	case "cmd":
		if m.tick() {
			return sHalt
		}
		vals := make([]mval, 0, len(s.Words))
		for _, w := range s.Words {
			if w.E != nil {
				v, err := evalExpr(w.E, m)
				if err != nil {
					return m.fail(err)
				}
				vals = append(vals, v)
			} else {
				vals = append(vals, classifyCommandWord(w.S))
			}
		}
		if len(vals) == 0 || vals[0].T != 's' {
			return m.fail(evalErrf("command name is not a string"))
		}
		name := vals[0].S
		if name == "stop" {
			return sStop
		}
		if name == "wait" && len(vals) == 2 && vals[1].T == 'n' {
			return sNext // the built-in: completes by itself, invisible in the trace
		}
		if !modelCommands[name] {
			return m.fail(evalErrf("unknown command %q", name))
		}
		m.cmdLog = append(m.cmdLog, showCall(name, vals[1:]))
		return sNext
	}
	panic("interp: unknown statement kind " + s.K)
}

var modelCommands = map[string]bool{"c0": true, "c1": true, "c2": true, "iffy": true, "settings": true, "hold": true}

func showCall(name string, args []mval) string {
	parts := make([]string, len(args))
	for i, a := range args {
		parts[i] = a.String()
	}
	return name + "(" + strings.Join(parts, ",") + ")"
}

// classifyCommandWord: the statement of C17 — true/false are booleans, decimal literals (optionally
// negative) numbers, every other word a string.
func classifyCommandWord(w string) mval {
	switch w {
	case "true":
		return boolVal(true)
	case "false":
		return boolVal(false)
	}
	if isDecimalLiteral(w) {
		f, _ := strconv.ParseFloat(w, 64)
		return numVal(f)
	}
	return strVal(w)
}

func isDecimalLiteral(w string) bool {
	s := strings.TrimPrefix(w, "-")
	if s == "" {
		return false
	}
	intPart, frac, hasDot := strings.Cut(s, ".")
	digits := func(x string) bool {
		if x == "" {
			return false
		}
		for _, r := range x {
			if r < '0' || r > '9' {
				return false
			}
		}
		return true
	}
	if !digits(intPart) {
		return false
	}
	return !hasDot || digits(frac)
}

// assign implements the variable semantics of C03.
func (m *interp) assign(name, op string, e *Expr) error {
	val, err := evalExpr(e, m)
	if err != nil {
		return err
	}
	prev, ok := m.store[name]
	if ok && prev.T != val.T {
		return evalErrf("$%s is a %s and cannot become a %s", name, prev.typeName(), val.typeName())
	}
	if !ok && op != "=" {
		return evalErrf("compound assignment to the unknown variable $%s", name)
	}
	if op == "=" {
		m.store[name] = val
		return nil
	}
	switch val.T {
	case 'n':
		r, err := applyBinary(strings.TrimSuffix(op, "="), prev, val)
		if err != nil {
			return err
		}
		m.store[name] = r
	case 's':
		if op != "+=" {
			return evalErrf("%s on strings", op)
		}
		m.store[name] = strVal(prev.S + val.S)
	default:
		return evalErrf("%s on booleans", op)
	}
	return nil
}

// randomDomainError: the arguments for which dice / random_range / random must fail (statement of C06).
// nil means "may succeed" (then C09 says what the result must look like).
func randomDomainError(name string, args []mval) error {
	want := map[string]int{"dice": 1, "random_range": 2, "random": 0}[name]
	if len(args) != want {
		return evalErrf("%s expects %d arguments, got %d", name, want, len(args))
	}
	for _, a := range args {
		if a.T != 'n' {
			return evalErrf("%s: argument is a %s", name, a.typeName())
		}
		if a.N != a.N || a.N > 1.7e308 || a.N < -1.7e308 || a.N >= 9223372036854775808.0 || a.N < -9223372036854775808.0 {
			return evalErrf("%s: argument %v is not representable as an integer", name, a.N)
		}
	}
	// Non-integral arguments: the statement does not say how they become integers, so an error is only
	// demanded when no reading (floor, ceiling, truncation) gives a valid call.
	switch name {
	case "dice":
		if args[0].N <= 0 {
			return evalErrf("dice needs at least one side")
		}
	case "random_range":
		loFloor, _ := new(big.Float).SetFloat64(math.Floor(args[0].N)).Int(nil)
		loCeil, _ := new(big.Float).SetFloat64(math.Ceil(args[0].N)).Int(nil)
		hiFloor, _ := new(big.Float).SetFloat64(math.Floor(args[1].N)).Int(nil)
		hiCeil, _ := new(big.Float).SetFloat64(math.Ceil(args[1].N)).Int(nil)
		if hiCeil.Cmp(loFloor) < 0 {
			return evalErrf("random_range: upper bound below lower bound")
		}
		size := new(big.Int).Sub(hiFloor, loCeil)
		size.Add(size, big.NewInt(1))
		if size.Cmp(new(big.Int).SetUint64(1<<63)) >= 0 {
			return evalErrf("random_range: range too large")
		}
	}
	return nil
}

func truncF(f float64) float64 {
	if f < 0 {
		return -float64(int64(-f))
	}
	return float64(int64(f))
}
