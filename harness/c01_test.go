//go:build verif

package harness

// C01 — dialogue flow follows Yarn's sequential semantics for every script and path.

import (
	"fmt"
	"github.com/remieven/ysgo"
	"github.com/remieven/ysgo/variable"
	"strings"
	"testing"

	"pgregory.net/rapid"
)

type flowCase struct {
	Script  *Script         `json:"script"`
	Vars    map[string]mval `json:"vars"`
	Choices []int           `json:"choices"`
	Junk    []int           `json:"junk,omitempty"`
}

const flowMaxEv = 60

func renderFlow(c flowCase) any {
	return map[string]any{"files": renderCanonical(c.Script), "choices": c.Choices, "junk_args": c.Junk}
}

// compareFlow runs model and runner on one path. It returns the verdict and the model (for classification).
func compareFlow(c flowCase, srcs []string) (Verdict, *interp) {
	m := newInterp(c.Script, c.Vars, c.Choices, flowMaxEv)
	m.stopAtErr = true
	m.run()
	if m.diverged {
		return Verdict{Discard: "script runs more than 300 statements without yielding"}, m
	}
	if m.stats.errs > 0 {
		return Verdict{Discard: "generated script is not fault-free: " + m.trace[len(m.trace)-1].Text}, m
	}
	h, err := newHost(srcs, "abc", c.Vars)
	if err != nil {
		return failf("generated script does not load: %v\n%s", err, strings.Join(srcs, "\n-- next reader --\n")), m
	}
	h.drive(c.Choices, c.Junk, flowMaxEv, true)
	if d := diffTraces(m.trace, h.trace); d != "" {
		return failf("trace differs from Yarn's sequential semantics: %s\nscript:\n%s\nchoices %v, junk arguments %v\nexpected trace:\n%sactual trace:\n%s",
			d, strings.Join(srcs, "\n-- next reader --\n"), c.Choices, c.Junk, showTrace(m.trace), showTrace(h.trace)), m
	}
	if strings.Join(m.fnLog, ";") != strings.Join(h.fnLog, ";") {
		return failf("host functions were called as %v, want %v\nscript:\n%s", h.fnLog, m.fnLog, strings.Join(srcs, "\n")), m
	}
	if strings.Join(m.cmdLog, ";") != strings.Join(h.cmdLog, ";") {
		return failf("commands were dispatched as %v, want %v\nscript:\n%s", h.cmdLog, m.cmdLog, strings.Join(srcs, "\n")), m
	}
	if len(m.trace) < flowMaxEv { // run completed: final variables must agree as well
		if d := sameStore(m.store, h.finalStore()); d != "" {
			return failf("variables after the run differ (model vs runner): %s\nscript:\n%s", d, strings.Join(srcs, "\n")), m
		}
	}
	return Verdict{}, m
}

func classifyFlow(c flowCase, m *interp) Verdict {
	st := m.stats
	cls := []string{fmt.Sprintf("choice-depth=%d", min(st.maxChoiceDepth, 4)), fmt.Sprintf("readers=%d", len(c.Script.Files))}
	if st.nestedJumps > 0 {
		cls = append(cls, "jump-from-nested-body")
	}
	if st.ifEndingInOpts > 0 {
		cls = append(cls, "if-body-ending-in-options")
	}
	if st.emptyBodyChoices > 0 {
		cls = append(cls, "chose-option-with-empty-body")
	}
	if st.elseTaken > 0 {
		cls = append(cls, "elseif-or-else-taken")
	}
	if st.nestedStops > 0 {
		cls = append(cls, "stop-inside-nested-body")
	}
	if st.endAfterOptions {
		cls = append(cls, "end-right-after-option-group")
	}
	if len(c.Junk) > 0 {
		cls = append(cls, "junk-arguments")
	}
	if len(m.trace) >= flowMaxEv {
		cls = append(cls, "trace-cut-at-limit")
	}
	nt := len(m.trace) >= 3 && (st.maxChoiceDepth >= 2 || st.nestedJumps > 0 || st.elseTaken > 0 || st.nestedStops > 0 || len(c.Script.Files) > 1)
	return Verdict{NonTrivial: nt, Classes: cls}
}

func runC01(c flowCase) Verdict {
	v, m := compareFlow(c, renderCanonical(c.Script))
	if v.Fail != "" || v.Discard != "" {
		return v
	}
	return classifyFlow(c, m)
}

var defaultScriptOpts = scriptOpts{maxNodes: 5, maxDepth: 4, maxBody: 5, tracking: true, router: true, shadow: true}

func genFlowCase(t *rapid.T, o scriptOpts) flowCase {
	sc := genScript(t, o)
	var titles []string
	for _, n := range sc.allNodes() {
		titles = append(titles, n.Title)
	}
	return flowCase{Script: sc, Vars: genFlowVars(t, titles), Choices: genChoices(t), Junk: genJunk(t)}
}

var c01Flow = Register(Prop[flowCase]{
	ID: "C01", Name: "flow",
	Gen: func(t *rapid.T) flowCase { return genFlowCase(t, defaultScriptOpts) },
	Run: runC01, Render: renderFlow, Minimize: minimizeFlow,
})

func TestC01Flow(t *testing.T) { Check(t, c01Flow) }

// All choice sequences of one script, decided exhaustively (up to a bound on the number of paths).

func allPaths(c flowCase, limit int, each func(path []int) bool) (paths int, complete bool) {
	path := []int{}
	for {
		m := newInterp(c.Script, c.Vars, append(append([]int{}, path...), make([]int, flowMaxEv)...), flowMaxEv)
		m.stopAtErr = true
		sizes := []int{}
		m.run()
		for _, e := range m.trace {
			if e.K == "opts" {
				sizes = append(sizes, len(e.Opts))
			}
		}
		if m.diverged {
			return paths, false
		}
		// the path actually taken: explicit prefix, then zeros
		taken := make([]int, len(sizes))
		for i := range taken {
			if len(path) > 0 && i < len(path) {
				taken[i] = path[i]
			}
		}
		// the last group may not have been answered when the trace limit cut the run: harmless
		paths++
		if !each(taken) {
			return paths, false
		}
		if paths >= limit {
			return paths, false
		}
		// odometer: increment the last position that can still grow
		i := len(taken) - 1
		for i >= 0 && taken[i]+1 >= sizes[i] {
			i--
		}
		if i < 0 {
			return paths, true
		}
		path = append(append([]int{}, taken[:i]...), taken[i]+1)
	}
}

func runC01AllPaths(c flowCase) Verdict {
	srcs := renderCanonical(c.Script)
	var bad Verdict
	var agg *interp
	nt := false
	var cls []string
	paths, complete := allPaths(c, 256, func(path []int) bool {
		// explicit path; the interpreter pads with zeros by cycling, so make the path non-cyclic by
		// giving it enough trailing zeros
		full := append(append([]int{}, path...), make([]int, flowMaxEv)...)
		cc := c
		cc.Choices = full
		cc.Junk = nil
		v, m := compareFlow(cc, srcs)
		if v.Fail != "" {
			bad = v
			bad.Fail = fmt.Sprintf("on choice path %v: %s", path, v.Fail)
			return false
		}
		if v.Discard != "" {
			bad = v
			return false
		}
		agg = m
		cv := classifyFlow(cc, m)
		nt = nt || cv.NonTrivial
		return true
	})
	if bad.Fail != "" || bad.Discard != "" {
		return bad
	}
	if agg == nil {
		return Verdict{Discard: "no path"}
	}
	cls = append(cls, fmt.Sprintf("paths=%s", bucket(paths)))
	if complete {
		cls = append(cls, "all-paths-enumerated")
	} else {
		cls = append(cls, "path-enumeration-cut")
	}
	return Verdict{NonTrivial: nt && paths >= 2, Classes: cls}
}

func bucket(n int) string {
	switch {
	case n <= 1:
		return "1"
	case n <= 4:
		return "2-4"
	case n <= 16:
		return "5-16"
	case n <= 64:
		return "17-64"
	}
	return "65+"
}

var c01AllPaths = Register(Prop[flowCase]{
	ID: "C01", Name: "all-paths",
	Gen: func(t *rapid.T) flowCase {
		c := genFlowCase(t, defaultScriptOpts)
		c.Choices, c.Junk = nil, nil
		return c
	},
	Run: runC01AllPaths, Render: renderFlow, Minimize: minimizeFlow,
})

func TestC01AllPaths(t *testing.T) { Check(t, c01AllPaths) }

// ---------------------------------------------------------------------------------------
// long runs that show nothing: a loop that counts to N by jumping, in one Next call, and a loop of N asynchronous
// commands without any line in between. The semantics has no step budget: the line after the loop is the next element,
// every command reached its handler once, and the end comes after the <<stop>> and not before.

type c01LongCase struct {
	Shape  string `json:"shape"` // jump-loop, command-loop
	Rounds int    `json:"rounds"`
}

func runC01Long(c c01LongCase) Verdict {
	var src string
	if c.Shape == "jump-loop" {
		src = fmt.Sprintf("title: Start\n---\n<<set $i to 0>>\n<<jump Loop>>\n===\ntitle: Loop\n---\n<<set $i += 1>>\n<<if $i >= %d>>\n    Counted to {$i}.\n    <<stop>>\n<<endif>>\n<<jump Loop>>\n===\n", c.Rounds)
	} else {
		src = fmt.Sprintf("title: Loop\n---\n<<tick {$i} beat>>\n<<set $i to $i + 1>>\n<<if $i >= %d>>\n    Counted to {$i}.\n    <<stop>>\n<<endif>>\n<<jump Loop>>\n===\n", c.Rounds)
	}
	storer := variable.NewInMemoryStorer()
	storer.SetNumberValue("i", 0)
	dr, err := ysgo.NewDialogueRunner(storer, "abc", strings.NewReader(src))
	if err != nil {
		return failf("script does not load: %v", err)
	}
	ticks, lastTick := 0, -1.0
	inOrder := true
	dr.AddCommand("tick", func(args []*variable.Value) <-chan error {
		if len(args) == 2 && args[0].Number != nil {
			if *args[0].Number != lastTick+1 {
				inOrder = false
			}
			lastTick = *args[0].Number
		}
		ticks++
		ch := make(chan error, 1)
		ch <- nil
		return ch
	})
	h := &host{dr: dr, storer: newRecStorer()}
	var ev Ev
	for calls := 0; ; calls++ {
		ev = h.step(0)
		if ev.K != "wait" {
			break
		}
		h.trace = h.trace[:0]
		if calls > 3*c.Rounds+10 {
			return failf("%s of %d rounds: still waiting after %d calls", c.Shape, c.Rounds, calls)
		}
	}
	want := fmt.Sprintf("Counted to %d.", c.Rounds)
	if ev.K != "line" || ev.Text != want {
		return failf("%s of %d rounds (%d statements without a line): expected the line %q, got %s (variable $i = %v, handler invocations %d)", c.Shape, c.Rounds, 3*c.Rounds, want, ev, h2mval(storer, "i"), ticks)
	}
	if c.Shape == "command-loop" && (ticks != c.Rounds || !inOrder) {
		return failf("command-loop of %d rounds: the handler was invoked %d times (in order: %v)", c.Rounds, ticks, inOrder)
	}
	if ev = h.step(0); ev.K != "end" {
		return failf("%s of %d rounds: expected the end after <<stop>>, got %s", c.Shape, c.Rounds, ev)
	}
	return Verdict{NonTrivial: c.Rounds >= 1000, Classes: []string{"shape=" + c.Shape}}
}

var c01Long = Register(Prop[c01LongCase]{ID: "C01", Name: "long-silent-runs", Run: runC01Long})

func TestC01LongSilentRuns(t *testing.T) {
	rounds := []int{1, 10, 1000, 33333, 33334, 40000, 50001, 100001, 120000}
	if tier() == "thorough" {
		rounds = append(rounds, 250000, 400000)
	}
	Enumerate(t, c01Long, true, fmt.Sprintf("a jump loop counting to N inside one Next call, and a loop of N asynchronous commands with no line in between, for N in %v", rounds),
		func(yield func(c01LongCase) bool) {
			for _, shape := range []string{"jump-loop", "command-loop"} {
				for _, n := range rounds {
					if !yield(c01LongCase{Shape: shape, Rounds: n}) {
						return
					}
				}
			}
		})
}

func h2mval(st variable.Storer, name string) mval {
	v, _ := st.GetValue(name)
	return toMval(v)
}
