//go:build verif

package harness

// Reference values, expression AST, printer and evaluator, written from the statement of C02
// (operator table, precedence, short-circuit, left-to-right single evaluation, errors for ill-typed operations).

import (
	"errors"
	"fmt"
	"math"
	"strconv"
	"strings"
)

// mval is a model value: exactly one of number, boolean, string.
type mval struct {
	T byte    `json:"t"` // 'n', 'b', 's'
	N float64 `json:"-"`
	B bool    `json:"b,omitempty"`
	S string  `json:"s,omitempty"`
	// NBits carries N through JSON exactly (NaN, infinities and -0 included).
	NBits string `json:"n,omitempty"`
}

func numVal(f float64) mval {
	return mval{T: 'n', N: f, NBits: strconv.FormatUint(math.Float64bits(f), 16)}
}
func boolVal(b bool) mval  { return mval{T: 'b', B: b} }
func strVal(s string) mval { return mval{T: 's', S: s} }
func (v *mval) fix() {
	if v.T == 'n' && v.NBits != "" {
		b, _ := strconv.ParseUint(v.NBits, 16, 64)
		v.N = math.Float64frombits(b)
	}
}
func (v mval) typeName() string {
	switch v.T {
	case 'n':
		return "number"
	case 'b':
		return "boolean"
	case 's':
		return "string"
	}
	return "nothing"
}

func (v mval) String() string {
	switch v.T {
	case 'n':
		return "number(" + strconv.FormatFloat(v.N, 'g', -1, 64) + ")"
	case 'b':
		return fmt.Sprintf("boolean(%v)", v.B)
	case 's':
		return fmt.Sprintf("string(%q)", v.S)
	}
	return "nothing"
}

// sameVal compares exactly (numbers by bits, except that every NaN equals every NaN).
func sameVal(a, b mval) bool {
	if a.T != b.T {
		return false
	}
	switch a.T {
	case 'n':
		if math.IsNaN(a.N) && math.IsNaN(b.N) {
			return true
		}
		return math.Float64bits(a.N) == math.Float64bits(b.N)
	case 'b':
		return a.B == b.B
	}
	return a.S == b.S
}

// displayNumberCanonical is the canonical display form used where the harness itself must print a number
// that the script then shows (integral without decimal point, otherwise shortest round-trip decimal).
func displayNumberCanonical(f float64) string {
	if f == 0 {
		return "0" // both zeros
	}
	if f == math.Trunc(f) && math.Abs(f) <= 1<<53 {
		return strconv.FormatFloat(f, 'f', 0, 64)
	}
	return strconv.FormatFloat(f, 'g', -1, 64)
}

func (v mval) display() string {
	switch v.T {
	case 'n':
		return displayNumberCanonical(v.N)
	case 'b':
		if v.B {
			return "True"
		}
		return "False"
	}
	return v.S
}

// ---------------------------------------------------------------------------------------
// expression AST

type Expr struct {
	K  string  `json:"k"`           // num, bool, str, var, call, neg, not, bin, par, null
	V  string  `json:"v,omitempty"` // num: literal text; str: content; var: name without $; call: function; bin: canonical operator
	B  bool    `json:"b,omitempty"`
	A  []*Expr `json:"a,omitempty"`  // operands / arguments / inner expression
	Sp int     `json:"sp,omitempty"` // spelling choice for the operator (index into its spellings)
}

var opSpellings = map[string][]string{
	"*": {"*"}, "/": {"/"}, "%": {"%"}, "+": {"+"}, "-": {"-"},
	"<=": {"<=", "lte"}, ">=": {">=", "gte"}, "<": {"<", "lt"}, ">": {">", "gt"},
	"==": {"==", "is", "eq"}, "!=": {"!=", "neq"},
	"and": {"and", "&&"}, "or": {"or", "||"}, "xor": {"xor", "^"},
	"not": {"not", "!"},
}

var binaryOps = []string{"*", "/", "%", "+", "-", "<=", ">=", "<", ">", "==", "!=", "and", "or", "xor"}

// precedence per the statement of C02: unary (6), * / % (5), + - (4), < <= > >= (3), == != (2), and or xor (1).
func precOf(op string) int {
	switch op {
	case "*", "/", "%":
		return 5
	case "+", "-":
		return 4
	case "<=", ">=", "<", ">":
		return 3
	case "==", "!=":
		return 2
	case "and", "or", "xor":
		return 1
	}
	return 0
}

func exprPrec(e *Expr) int {
	switch e.K {
	case "bin":
		return precOf(e.V)
	case "neg", "not":
		return 6
	}
	return 7 // atoms and parenthesised expressions
}

func num(lit string) *Expr             { return &Expr{K: "num", V: lit} }
func boolean(b bool) *Expr             { return &Expr{K: "bool", B: b} }
func str(s string) *Expr               { return &Expr{K: "str", V: s} }
func varRef(name string) *Expr         { return &Expr{K: "var", V: name} }
func call(fn string, a ...*Expr) *Expr { return &Expr{K: "call", V: fn, A: a} }
func bin(op string, l, r *Expr) *Expr  { return &Expr{K: "bin", V: op, A: []*Expr{l, r}} }
func neg(e *Expr) *Expr                { return &Expr{K: "neg", A: []*Expr{e}} }
func not(e *Expr) *Expr                { return &Expr{K: "not", A: []*Expr{e}} }
func par(e *Expr) *Expr                { return &Expr{K: "par", A: []*Expr{e}} }

// exprStyle lets a layout override the spelling choices stored in the tree (C08).
type exprStyle struct {
	spell func(op string, stored int) string // nil: use the stored choice
	extra func() bool                        // nil: no extra redundant parentheses
	blank func() string                      // nil: single blanks around binary operators
}

func (st *exprStyle) spelling(op string, stored int) string {
	if st != nil && st.spell != nil {
		return st.spell(op, stored)
	}
	sp := opSpellings[op]
	return sp[((stored%len(sp))+len(sp))%len(sp)]
}

// printExpr prints with the minimal parentheses the precedence table requires (binary operators are
// left-associative), plus the explicit "par" nodes of the tree.
func printExpr(e *Expr, st *exprStyle) string {
	s := printExprInner(e, st)
	if st != nil && st.extra != nil && st.extra() {
		return "(" + s + ")"
	}
	return s
}

func printExprInner(e *Expr, st *exprStyle) string {
	switch e.K {
	case "num":
		return e.V
	case "bool":
		if e.B {
			return "true"
		}
		return "false"
	case "null":
		return "null"
	case "str":
		return `"` + e.V + `"`
	case "var":
		return "$" + e.V
	case "call":
		args := make([]string, len(e.A))
		for i, a := range e.A {
			args[i] = printExpr(a, st)
		}
		return e.V + "(" + strings.Join(args, ", ") + ")"
	case "par":
		return "(" + printExpr(e.A[0], st) + ")"
	case "neg", "not":
		inner := printExpr(e.A[0], st)
		if exprPrec(e.A[0]) < 6 {
			inner = "(" + inner + ")"
		}
		if e.K == "neg" {
			return "-" + inner
		}
		sp := st.spelling("not", e.Sp)
		if sp == "not" {
			return "not " + inner
		}
		return sp + inner
	case "bin":
		p := precOf(e.V)
		l, r := printExpr(e.A[0], st), printExpr(e.A[1], st)
		if exprPrec(e.A[0]) < p {
			l = "(" + l + ")"
		}
		if exprPrec(e.A[1]) <= p {
			r = "(" + r + ")"
		}
		blank := " "
		if st != nil && st.blank != nil {
			blank = st.blank()
		}
		return l + blank + st.spelling(e.V, e.Sp) + blank + r
	}
	panic("printExpr: unknown kind " + e.K)
}

// ---------------------------------------------------------------------------------------
// evaluation

type evalEnv interface {
	lookup(name string) (mval, bool)
	callFn(name string, args []mval) (mval, bool, error) // value, hasValue, error
}

type evalError struct{ msg string }

func (e *evalError) Error() string { return e.msg }

func evalErrf(format string, a ...any) error { return &evalError{fmt.Sprintf(format, a...)} }

func evalExpr(e *Expr, env evalEnv) (mval, error) {
	switch e.K {
	case "num":
		f, err := strconv.ParseFloat(e.V, 64)
		if err != nil && !errors.Is(err, strconv.ErrRange) { // beyond the largest double: infinity, as IEEE-754 rounds it
			return mval{}, evalErrf("bad number literal %q", e.V)
		}
		return numVal(f), nil
	case "bool":
		return boolVal(e.B), nil
	case "str":
		return strVal(e.V), nil
	case "null":
		return mval{}, evalErrf("null has no value")
	case "var":
		v, ok := env.lookup(e.V)
		if !ok {
			return mval{}, evalErrf("unknown variable $%s", e.V)
		}
		return v, nil
	case "par":
		return evalExpr(e.A[0], env)
	case "call":
		args := make([]mval, 0, len(e.A))
		for _, a := range e.A { // left to right, exactly once
			v, err := evalExpr(a, env)
			if err != nil {
				return mval{}, err
			}
			args = append(args, v)
		}
		v, has, err := env.callFn(e.V, args)
		if err != nil {
			return mval{}, err
		}
		if !has {
			return mval{}, evalErrf("function %s returns nothing and cannot be used as a value", e.V)
		}
		return v, nil
	case "neg":
		v, err := evalExpr(e.A[0], env)
		if err != nil {
			return mval{}, err
		}
		if v.T != 'n' {
			return mval{}, evalErrf("unary minus on a %s", v.typeName())
		}
		return numVal(-v.N), nil
	case "not":
		v, err := evalExpr(e.A[0], env)
		if err != nil {
			return mval{}, err
		}
		if v.T != 'b' {
			return mval{}, evalErrf("not on a %s", v.typeName())
		}
		return boolVal(!v.B), nil
	case "bin":
		l, err := evalExpr(e.A[0], env)
		if err != nil {
			return mval{}, err
		}
		if e.V == "and" || e.V == "or" {
			if l.T != 'b' {
				return mval{}, evalErrf("%s on a %s", e.V, l.typeName())
			}
			if (e.V == "and" && !l.B) || (e.V == "or" && l.B) {
				return l, nil // the right operand is not evaluated
			}
		}
		r, err := evalExpr(e.A[1], env)
		if err != nil {
			return mval{}, err
		}
		return applyBinary(e.V, l, r)
	}
	return mval{}, evalErrf("unknown expression kind %q", e.K)
}

func applyBinary(op string, l, r mval) (mval, error) {
	bad := func() (mval, error) {
		return mval{}, evalErrf("operator %s is not defined on %s and %s", op, l.typeName(), r.typeName())
	}
	if l.T != r.T {
		return bad()
	}
	switch op {
	case "*", "/", "%", "-", "<=", ">=", "<", ">":
		if l.T != 'n' {
			return bad()
		}
	case "+":
		if l.T == 'b' {
			return bad()
		}
	case "and", "or", "xor":
		if l.T != 'b' {
			return bad()
		}
	}
	switch op {
	case "*":
		return numVal(l.N * r.N), nil
	case "/":
		return numVal(l.N / r.N), nil
	case "%":
		return numVal(math.Mod(l.N, r.N)), nil
	case "+":
		if l.T == 's' {
			return strVal(l.S + r.S), nil
		}
		return numVal(l.N + r.N), nil
	case "-":
		return numVal(l.N - r.N), nil
	case "<=":
		return boolVal(l.N <= r.N), nil
	case ">=":
		return boolVal(l.N >= r.N), nil
	case "<":
		return boolVal(l.N < r.N), nil
	case ">":
		return boolVal(l.N > r.N), nil
	case "==", "!=":
		var eq bool
		switch l.T {
		case 'n':
			eq = l.N == r.N
		case 'b':
			eq = l.B == r.B
		default:
			eq = l.S == r.S
		}
		return boolVal(eq == (op == "==")), nil
	case "and":
		return boolVal(l.B && r.B), nil
	case "or":
		return boolVal(l.B || r.B), nil
	case "xor":
		return boolVal(l.B != r.B), nil
	}
	return mval{}, evalErrf("unknown operator %q", op)
}
