//go:build verif

package harness

// C20 — internal queue/stack are exact FIFO/LIFO; indentation tokens are balanced.

import (
	"fmt"
	"strings"
	"testing"

	"github.com/antlr4-go/antlr/v4"
	"github.com/remieven/ysgo"
	"pgregory.net/rapid"
)

// ---------------------------------------------------------------------------------------
// (a) queue against a slice model

type qop struct {
	K string `json:"k"` // e: enqueue N fresh values, d: dequeue N values (stops when empty), p: peek, s: size
	N int    `json:"n,omitempty"`
}

type c20QueueCase struct {
	Ops []qop `json:"ops"`
}

// wide element types: the same history on queues of 5-word and 10-word elements (sizes that are derived from the element
// size, if any, differ there)
type wide5 [5]int64
type wide10 struct {
	a, b [4]int64
	s    string
}

func runC20Queue(c c20QueueCase) Verdict {
	if v := runC20QueueOf(c, func(i int) int { return i }); v.Fail != "" {
		return v
	}
	if len(c.Ops) < 64 { // (the long enumerated words stay on int)
		if v := runC20QueueOf(c, func(i int) wide5 { return wide5{int64(i), 1, 2, 3, int64(-i)} }); v.Fail != "" {
			v.Fail = "queue of 5-word elements: " + v.Fail
			return v
		}
		if v := runC20QueueOf(c, func(i int) wide10 { return wide10{a: [4]int64{int64(i)}, s: fmt.Sprint(i)} }); v.Fail != "" {
			v.Fail = "queue of 10-word elements: " + v.Fail
			return v
		}
	}
	return runC20QueueOf(c, func(i int) string { return fmt.Sprint("element ", i) })
}

func runC20QueueOf[T comparable](c c20QueueCase, mk func(int) T) Verdict {
	q := ysgo.VerifNewQueue[T]()
	var model []T
	next := 1
	// shadow of the documented ring layout, only used to classify cases (never as an oracle)
	shadowCap, shadowHead, growths, wrappedGrowths := 8, 0, 0, 0
	step := 0
	check := func(what string) *Verdict {
		if got := q.Size(); got != len(model) {
			v := failf("step %d (%s): Size() = %d, model has %d elements", step, what, got, len(model))
			return &v
		}
		return nil
	}
	for _, op := range c.Ops {
		switch op.K {
		case "e":
			for i := 0; i < op.N; i++ {
				step++
				if len(model) == shadowCap {
					growths++
					if shadowHead != 0 {
						wrappedGrowths++
					}
					shadowCap *= 2
					shadowHead = 0
				}
				q.Enqueue(mk(next))
				model = append(model, mk(next))
				next++
				if v := check("enqueue"); v != nil {
					return *v
				}
			}
		case "d":
			for i := 0; i < op.N && len(model) > 0; i++ {
				step++
				got := q.Dequeue()
				want := model[0]
				model = model[1:]
				if got != want {
					return failf("step %d: Dequeue() = %v, want %v (FIFO order broken; %d growths so far)", step, got, want, growths)
				}
				shadowHead = (shadowHead + 1) % shadowCap
				if len(model) == 0 {
					shadowHead = 0
				}
				if v := check("dequeue"); v != nil {
					return *v
				}
			}
		case "p":
			step++
			if len(model) > 0 {
				if got := q.Peek(); got != model[0] {
					return failf("step %d: Peek() = %v, want %v", step, got, model[0])
				}
				if v := check("peek"); v != nil {
					return *v
				}
			}
		case "s":
			step++
			if v := check("size"); v != nil {
				return *v
			}
		}
	}
	// drain: everything still inside must come out in order
	for len(model) > 0 {
		step++
		got := q.Dequeue()
		if got != model[0] {
			return failf("drain step %d: Dequeue() = %v, want %v", step, got, model[0])
		}
		model = model[1:]
		if v := check("drain"); v != nil {
			return *v
		}
	}
	// the emptied queue is used again
	for i := 0; i < 5; i++ {
		step++
		q.Enqueue(mk(next))
		model = append(model, mk(next))
		next++
		if v := check("enqueue after the queue was emptied"); v != nil {
			return *v
		}
	}
	for len(model) > 0 {
		step++
		if got := q.Dequeue(); got != model[0] {
			return failf("step %d (after the queue was emptied and refilled): Dequeue() = %v, want %v", step, got, model[0])
		}
		model = model[1:]
		if v := check("second drain"); v != nil {
			return *v
		}
	}
	v := Verdict{NonTrivial: growths >= 2 && wrappedGrowths >= 1}
	v.Classes = append(v.Classes, fmt.Sprintf("growths=%d", min(growths, 4)), fmt.Sprintf("wrapped_growths=%d", min(wrappedGrowths, 3)))
	return v
}

var c20Queue = Register(Prop[c20QueueCase]{
	ID: "C20", Name: "queue",
	Gen: func(t *rapid.T) c20QueueCase {
		sizes := []int{1, 1, 2, 3, 5, 7, 8, 9, 15, 16, 17, 33}
		if rapid.IntRange(0, 3).Draw(t, "large") == 0 {
			// many elements queued at once: later growths (the growth policy may change with the size)
			sizes = []int{1, 3, 8, 17, 33, 64, 100, 129, 257, 300, 513, 600, 1025, 2100}
		}
		n := rapid.IntRange(1, 40).Draw(t, "bursts")
		var c c20QueueCase
		for i := 0; i < n; i++ {
			switch rapid.IntRange(0, 9).Draw(t, "kind") {
			case 0, 1, 2, 3:
				c.Ops = append(c.Ops, qop{K: "e", N: rapid.SampledFrom(sizes).Draw(t, "n")})
			case 4, 5, 6:
				c.Ops = append(c.Ops, qop{K: "d", N: rapid.SampledFrom(sizes).Draw(t, "n")})
			case 7, 8:
				c.Ops = append(c.Ops, qop{K: "p"})
			default:
				c.Ops = append(c.Ops, qop{K: "s"})
			}
		}
		return c
	},
	Run: runC20Queue,
})

func TestC20Queue(t *testing.T) { Check(t, c20Queue) }

// Exhaustive: every word over {enqueue, dequeue} up to a length; covers the first growth from every
// head offset and the second growth.
var c20QueueWords = Register(Prop[c20QueueCase]{ID: "C20", Name: "queue-words", Run: runC20Queue})

func TestC20QueueExhaustive(t *testing.T) {
	maxLen := envInt("VERIF_C20_WORDLEN", 16)
	Enumerate(t, c20QueueWords, true, fmt.Sprintf("all words over {enqueue,dequeue} of length exactly %d (prefixes cover shorter ones; dequeue on empty is skipped)", maxLen),
		func(yield func(c20QueueCase) bool) {
			for w := 0; w < 1<<maxLen; w++ {
				c := c20QueueCase{}
				for i := 0; i < maxLen; i++ {
					k := "e"
					if w>>i&1 == 1 {
						k = "d"
					}
					if l := len(c.Ops); l > 0 && c.Ops[l-1].K == k {
						c.Ops[l-1].N++
					} else {
						c.Ops = append(c.Ops, qop{K: k, N: 1})
					}
				}
				if !yield(c) {
					return
				}
			}
		})
}

// Every (fill level, head offset) at the moment of each of the first three growths.
var c20QueueGrowth = Register(Prop[c20QueueCase]{ID: "C20", Name: "queue-growth-offsets", Run: runC20Queue})

func TestC20QueueGrowthOffsets(t *testing.T) {
	Enumerate(t, c20QueueGrowth, true, "for every head offset h1 in [0,8), h2 in [0,16), h3 in {0,1,15,16,31}: rotate to the offset, fill, grow; three times",
		func(yield func(c20QueueCase) bool) {
			rotate := func(c *c20QueueCase, h int) { // moves the head by h while keeping one element inside
				c.Ops = append(c.Ops, qop{K: "e", N: 1})
				for i := 0; i < h; i++ {
					c.Ops = append(c.Ops, qop{K: "e", N: 1}, qop{K: "d", N: 1})
				}
			}
			for h1 := 0; h1 < 8; h1++ {
				for h2 := 0; h2 < 16; h2++ {
					for _, h3 := range []int{0, 1, 15, 16, 31} {
						c := c20QueueCase{}
						rotate(&c, h1)
						c.Ops = append(c.Ops, qop{K: "e", N: 8}, qop{K: "p"}, qop{K: "d", N: 3})
						rotate(&c, h2)
						c.Ops = append(c.Ops, qop{K: "e", N: 16}, qop{K: "p"}, qop{K: "d", N: 5})
						rotate(&c, h3)
						c.Ops = append(c.Ops, qop{K: "e", N: 32}, qop{K: "s"})
						if !yield(c) {
							return
						}
					}
				}
			}
		})
}

// Every growth up to several thousand elements, from a few head offsets each.
var c20QueueLadder = Register(Prop[c20QueueCase]{ID: "C20", Name: "queue-growth-ladder", Run: runC20Queue})

func TestC20QueueGrowthLadder(t *testing.T) {
	Enumerate(t, c20QueueLadder, true, "fill levels 8, 16, ..., 8192 (and one more, one less): rotate the head by 0, 1, half or all-but-one of the level, fill to the level, exceed it by 1..3 elements, partly drain, refill",
		func(yield func(c20QueueCase) bool) {
			for level := 8; level <= 8192; level *= 2 {
				for _, fill := range []int{level - 1, level, level + 1} {
					for _, h := range []int{0, 1, level / 2, level - 1} {
						for extra := 1; extra <= 3; extra++ {
							c := c20QueueCase{}
							c.Ops = append(c.Ops, qop{K: "e", N: h}, qop{K: "d", N: h}, qop{K: "e", N: fill}, qop{K: "p"}, qop{K: "e", N: extra}, qop{K: "s"},
								qop{K: "d", N: fill / 2}, qop{K: "p"}, qop{K: "e", N: fill}, qop{K: "d", N: 3}, qop{K: "e", N: 3})
							if !yield(c) {
								return
							}
						}
					}
				}
			}
		})
}

// ---------------------------------------------------------------------------------------
// (a') stack against a slice model

type sop struct {
	K string `json:"k"` // push, pushall, pop, peek, size, clear
	N int    `json:"n,omitempty"`
}

type c20StackCase struct {
	Ops []sop `json:"ops"`
}

func runC20Stack(c c20StackCase) Verdict {
	s := ysgo.VerifNewStack[int]()
	var model []int
	next := 1
	clears, maxDepth := 0, 0
	for i, op := range c.Ops {
		switch op.K {
		case "push":
			s.Push(next)
			model = append(model, next)
			next++
		case "pushall":
			var vals []int
			for j := 0; j < op.N; j++ {
				vals = append(vals, next)
				next++
			}
			s.PushAll(vals...)
			model = append(model, vals...)
			// the batch belongs to the caller, who may reuse it: the stack must hold its own copy
			for j := range vals {
				vals[j] = -1000 - j
			}
		case "pop":
			if len(model) > 0 {
				got, want := s.Pop(), model[len(model)-1]
				model = model[:len(model)-1]
				if got != want {
					return failf("step %d: Pop() = %d, want %d", i, got, want)
				}
			}
		case "peek":
			if len(model) > 0 {
				if got, want := s.Peek(), model[len(model)-1]; got != want {
					return failf("step %d: Peek() = %d, want %d", i, got, want)
				}
			}
		case "clear":
			s.Clear()
			model = model[:0]
			clears++
		}
		if got := s.Size(); got != len(model) {
			return failf("step %d (%s): Size() = %d, model has %d", i, op.K, got, len(model))
		}
		maxDepth = max(maxDepth, len(model))
	}
	for len(model) > 0 {
		got, want := s.Pop(), model[len(model)-1]
		model = model[:len(model)-1]
		if got != want {
			return failf("drain: Pop() = %d, want %d", got, want)
		}
	}
	if s.Size() != 0 {
		return failf("drain: Size() = %d after popping everything", s.Size())
	}
	return Verdict{NonTrivial: maxDepth >= 3 && len(c.Ops) >= 6, Classes: []string{fmt.Sprintf("clears=%d", min(clears, 3))}}
}

var c20Stack = Register(Prop[c20StackCase]{
	ID: "C20", Name: "stack",
	Gen: func(t *rapid.T) c20StackCase {
		n := rapid.IntRange(1, 60).Draw(t, "n")
		var c c20StackCase
		for i := 0; i < n; i++ {
			switch rapid.IntRange(0, 11).Draw(t, "kind") {
			case 0, 1, 2, 3:
				c.Ops = append(c.Ops, sop{K: "push"})
			case 4:
				c.Ops = append(c.Ops, sop{K: "pushall", N: rapid.SampledFrom([]int{0, 1, 2, 3, 5, 8, 9, 17, 40, 300}).Draw(t, "n")})
			case 5, 6, 7:
				c.Ops = append(c.Ops, sop{K: "pop"})
			case 8, 9:
				c.Ops = append(c.Ops, sop{K: "peek"})
			case 10:
				c.Ops = append(c.Ops, sop{K: "size"})
			default:
				c.Ops = append(c.Ops, sop{K: "clear"})
			}
		}
		return c
	},
	Run: runC20Stack,
})

func TestC20Stack(t *testing.T) { Check(t, c20Stack) }

// ---------------------------------------------------------------------------------------
// (b) token balance

type textCase struct {
	Input string `json:"input"`
	Kind  string `json:"kind,omitempty"`
}

type silentErrors struct {
	*antlr.DefaultErrorListener
	n int
}

func (l *silentErrors) SyntaxError(antlr.Recognizer, interface{}, int, int, string, antlr.RecognitionException) {
	l.n++
}

func runC20Tokens(c textCase) Verdict {
	lexer := ysgo.VerifNewLexer(antlr.NewInputStream(c.Input))
	lexer.RemoveErrorListeners()
	lexer.AddErrorListener(&silentErrors{})
	names := lexer.GetSymbolicNames()
	name := func(tt int) string {
		if tt == antlr.TokenEOF {
			return "EOF"
		}
		if tt >= 0 && tt < len(names) {
			return names[tt]
		}
		return fmt.Sprint(tt)
	}
	limit := 3*len(c.Input) + 10
	depth, indents, dedents, count := 0, 0, 0, 0
	for {
		tok := lexer.NextToken()
		if tok == nil {
			return failf("NextToken returned nil after %d tokens", count)
		}
		count++
		if count > limit {
			return failf("more than %d tokens for %d bytes of input: the token stream does not end", limit, len(c.Input))
		}
		switch name(tok.GetTokenType()) {
		case "INDENT":
			depth++
			indents++
		case "DEDENT":
			depth--
			dedents++
			if depth < 0 {
				return failf("token %d is a DEDENT closing more than was opened", count)
			}
		}
		if tok.GetTokenType() == antlr.TokenEOF {
			break
		}
	}
	if depth != 0 {
		return failf("%d INDENT but %d DEDENT tokens before EOF", indents, dedents)
	}
	// the same through a token stream, as the parser sees it: exactly one EOF and it is last
	lexer2 := ysgo.VerifNewLexer(antlr.NewInputStream(c.Input))
	lexer2.RemoveErrorListeners()
	stream := antlr.NewCommonTokenStream(lexer2, antlr.TokenDefaultChannel)
	stream.Fill()
	all := stream.GetAllTokens()
	eofs := 0
	for i, tok := range all {
		if tok.GetTokenType() == antlr.TokenEOF {
			eofs++
			if i != len(all)-1 {
				return failf("EOF token at position %d of %d", i, len(all))
			}
		}
	}
	if eofs != 1 {
		return failf("token stream holds %d EOF tokens", eofs)
	}
	if len(all) != count {
		return failf("token stream holds %d tokens, direct lexing gave %d", len(all), count)
	}
	// two lexers alive at the same time, asked for tokens in turn (parallel loading, a lexer kept half-read): each gives the
	// token types it gives alone
	if len(all) <= 4000 {
		other := "title: Z\n---\n-> a\n    -> b\n        deep\n    back\nend\n===\n"
		la, lb := ysgo.VerifNewLexer(antlr.NewInputStream(c.Input)), ysgo.VerifNewLexer(antlr.NewInputStream(other))
		la.RemoveErrorListeners()
		lb.RemoveErrorListeners()
		soloB := ysgo.VerifNewLexer(antlr.NewInputStream(other))
		soloB.RemoveErrorListeners()
		doneB := false
		for i := 0; i < len(all); i++ {
			ta := la.NextToken()
			if ta == nil || ta.GetTokenType() != all[i].GetTokenType() {
				return failf("token %d differs when another lexer is asked for tokens in turn: %s instead of %s", i, name(ta.GetTokenType()), name(all[i].GetTokenType()))
			}
			if !doneB {
				tb, sb := lb.NextToken(), soloB.NextToken()
				if tb.GetTokenType() != sb.GetTokenType() {
					return failf("token %d of a second lexer (a fixed script) differs when it runs in turn with the lexer of this input: %s instead of %s", i, name(tb.GetTokenType()), name(sb.GetTokenType()))
				}
				doneB = tb.GetTokenType() == antlr.TokenEOF
			}
		}
	}
	cls := []string{"kind=" + c.Kind, fmt.Sprintf("indents=%d", min(indents, 4))}
	return Verdict{NonTrivial: indents >= 2, Classes: cls}
}

func genTokenInput(t *rapid.T) textCase {
	switch rapid.IntRange(0, 11).Draw(t, "kind") {
	case 11:
		// many levels of indentation open at the same time
		levels := rapid.SampledFrom([]int{5, 30, 64, 99, 100, 101, 128, 130, 255, 256, 300}).Draw(t, "levels")
		unit := rapid.SampledFrom([]string{" ", "\t", "  "}).Draw(t, "unit")
		var b strings.Builder
		b.WriteString("title: A\n---\n")
		for d := 0; d < levels; d++ {
			b.WriteString(strings.Repeat(unit, d) + "-> o\n")
		}
		b.WriteString(strings.Repeat(unit, levels) + "deepest\n")
		switch rapid.IntRange(0, 2).Draw(t, "tail") {
		case 0:
			b.WriteString("back at the top\n===\n")
		case 1:
			b.WriteString(strings.Repeat(unit, levels/2) + "half-way back\n===\n")
		}
		return textCase{Input: b.String(), Kind: "deep-nesting"}
	case 10:
		// long scripts: many indented blocks, so that many synthesised tokens are queued over the run
		n := rapid.SampledFrom([]int{40, 130, 255, 256, 257, 300, 520, 700, 1100}).Draw(t, "blocks")
		depth := rapid.IntRange(1, 3).Draw(t, "depth")
		var b strings.Builder
		b.WriteString("title: A\n---\n")
		for i := 0; i < n; i++ {
			for d := 0; d <= depth; d++ {
				b.WriteString(strings.Repeat("    ", d) + fmt.Sprintf("-> option %d.%d\n", i, d))
			}
			b.WriteString(strings.Repeat("    ", depth+1) + "body\n")
		}
		if rapid.Bool().Draw(t, "close") {
			b.WriteString("===\n")
		}
		return textCase{Input: b.String(), Kind: "many-blocks"}
	case 0:
		return textCase{Input: rapid.String().Draw(t, "s"), Kind: "arbitrary"}
	case 1, 2:
		return textCase{Input: genFragmentSoup(t, 30), Kind: "soup"}
	case 3, 4, 5:
		return textCase{Input: mutateText(t, genBaseScript(t), rapid.IntRange(1, 4).Draw(t, "k")), Kind: "mutated"}
	case 6:
		return textCase{Input: genBaseScript(t), Kind: "valid"}
	default:
		return textCase{Input: genIndentSoup(t), Kind: "indent-soup"}
	}
}

// genIndentSoup: a node body whose lines carry random indentation (the part of the input the
// INDENT/DEDENT synthesis looks at).
func genIndentSoup(t *rapid.T) string {
	n := rapid.IntRange(1, 25).Draw(t, "lines")
	s := "title: A\n---\n"
	unit := rapid.SampledFrom([]string{" ", "  ", "    ", "\t"}).Draw(t, "unit")
	for i := 0; i < n; i++ {
		d := rapid.IntRange(0, 5).Draw(t, "depth")
		ind := ""
		for j := 0; j < d; j++ {
			ind += unit
		}
		body := rapid.SampledFrom([]string{"text", "-> opt", "", "// c", "<<if true>>", "<<endif>>", "<<set $x to 1>>", "x #t", "{1}"}).Draw(t, "body")
		nl := rapid.SampledFrom([]string{"\n", "\n", "\n", "\r\n", "\r"}).Draw(t, "nl")
		s += ind + body + nl
	}
	if rapid.Bool().Draw(t, "close") {
		s += "===\n"
	}
	return s
}

var c20Tokens = Register(Prop[textCase]{ID: "C20", Name: "tokens", Gen: genTokenInput, Run: runC20Tokens})

func TestC20Tokens(t *testing.T) { Check(t, c20Tokens) }

func FuzzC20Tokens(f *testing.F) {
	for _, s := range loadFixtures() {
		f.Add(s)
	}
	for _, s := range miniScripts {
		f.Add(s)
	}
	for _, s := range hostileFragments {
		f.Add("title: A\n---\n" + s + "\n    " + s + "\n===\n")
	}
	f.Fuzz(func(t *testing.T, s string) {
		if len(s) > 4096 {
			return
		}
		DecideFuzz(t, c20Tokens, textCase{Input: s, Kind: "fuzz"})
	})
}
