//go:build verif

package harness

// C03 — variables: (compound) assignment, type stability, storer is source of truth.

import (
	"fmt"
	"sort"
	"strings"
	"testing"

	"github.com/remieven/ysgo"
	"github.com/remieven/ysgo/variable"
	"pgregory.net/rapid"
)

type c03Step struct {
	K   string `json:"k"` // set, declare, show, host-set, host-read
	Var string `json:"var"`
	Op  string `json:"op,omitempty"`
	E   *Expr  `json:"e,omitempty"`
	Val *mval  `json:"val,omitempty"`
	As  string `json:"as,omitempty"` // declare: the "as <type>" clause
}

type c03Case struct {
	Initial map[string]mval `json:"initial"`
	Steps   []c03Step       `json:"steps"`
	Storer  string          `json:"storer"` // "recording" or "in-memory"
}

var c03Vars = []string{"a", "b", "f", "s", "u", "w"}

func c03Script(c c03Case) string {
	var b strings.Builder
	b.WriteString("title: Start\n---\n")
	for i, st := range c.Steps {
		switch st.K {
		case "set":
			op := st.Op
			if op == "=" {
				op = "to"
			}
			fmt.Fprintf(&b, "<<set $%s %s %s>>\nM%d\n", st.Var, op, printExpr(st.E, nil), i)
		case "declare":
			as := ""
			if st.As != "" {
				as = " as " + st.As
			}
			fmt.Fprintf(&b, "<<declare $%s = %s%s>>\nM%d\n", st.Var, printExpr(st.E, nil), as, i)
		case "show":
			fmt.Fprintf(&b, "S%d {cap($%s)}\n", i, st.Var)
		case "poke-show":
			// one step of the runner: the script reads the variable, host code called by the script writes it, the script reads it again
			fmt.Fprintf(&b, "P%d {cap($%s)}{poke(%d)}{cap($%s)}\n", i, st.Var, i, st.Var)
		case "poke-opts":
			// one option group: the first label reads the variable, the second calls host code that writes it, the third reads it again
			fmt.Fprintf(&b, "-> A%d {cap($%s)}\n-> B%d {poke(%d)}\n-> C%d {cap($%s)}\nM%d\n", i, st.Var, i, i, i, st.Var, i)
		case "poke-set":
			// one step: read, host write, (compound) assignment
			op := st.Op
			if op == "=" {
				op = "to"
			}
			fmt.Fprintf(&b, "<<call cap($%s)>>\n<<call poke(%d)>>\n<<set $%s %s %s>>\nM%d\n", st.Var, i, st.Var, op, printExpr(st.E, nil), i)
		}
	}
	// the node jumps back to itself: the harness runs the history twice, so that every statement node is
	// executed twice on one runner (a statement must not depend on having been executed before)
	b.WriteString("<<jump Start>>\n===\n")
	return b.String()
}

// storeView reads a storer through all three of its read methods and checks that they agree.
func storeView(st variable.Storer, names []string) (map[string]mval, string) {
	all := st.GetValues()
	out := map[string]mval{}
	for name, v := range all {
		v := v
		kinds := 0
		if v.Number != nil {
			kinds++
		}
		if v.Boolean != nil {
			kinds++
		}
		if v.String != nil {
			kinds++
		}
		if kinds != 1 {
			return nil, fmt.Sprintf("GetValues reports $%s with %d types at once", name, kinds)
		}
		out[name] = toMval(&v)
	}
	seen := map[string]bool{}
	for _, n := range names {
		seen[n] = true
	}
	for n := range out {
		seen[n] = true
	}
	for name := range seen {
		v, ok := st.GetValue(name)
		_, inAll := out[name]
		if ok != inAll {
			return nil, fmt.Sprintf("$%s: GetValue says present=%v, GetValues says present=%v", name, ok, inAll)
		}
		if st.Contains(name) != ok {
			return nil, fmt.Sprintf("$%s: Contains says %v, GetValue says %v", name, st.Contains(name), ok)
		}
		if ok {
			if v == nil {
				return nil, fmt.Sprintf("$%s: GetValue returned a nil value", name)
			}
			if got := toMval(v); !sameVal(got, out[name]) {
				return nil, fmt.Sprintf("$%s is reported as %v by GetValue and as %v by GetValues", name, got, out[name])
			}
		}
	}
	return out, ""
}

func runC03(c c03Case) Verdict {
	src := c03Script(c)
	m := newInterp(&Script{}, c.Initial, nil, 1000)
	var storer variable.Storer
	var rec *recStorer
	if c.Storer == "in-memory" {
		storer = variable.NewInMemoryStorer()
	} else {
		rec = newRecStorer()
		storer = rec
	}
	loadStore(storer, m.store)
	if rec != nil {
		rec.log = nil
	}
	dr, err := ysgo.NewDialogueRunner(storer, "abc", strings.NewReader(src))
	if err != nil {
		return failf("script does not load: %v\n%s", err, src)
	}
	var captured []mval
	dr.AddFunction("cap", func(args []*variable.Value) (*variable.Value, error) {
		captured = append(captured, toMvals(args)...)
		return variable.NewNumber(0), nil
	})
	writeToStorer := func(name string, v mval) {
		switch v.T {
		case 'n':
			storer.SetNumberValue(name, v.N)
		case 'b':
			storer.SetBooleanValue(name, v.B)
		case 's':
			storer.SetStringValue(name, v.S)
		}
	}
	dr.AddFunction("poke", func(args []*variable.Value) (*variable.Value, error) {
		i := int(*args[0].Number)
		v := *c.Steps[i].Val
		v.fix()
		writeToStorer(c.Steps[i].Var, v)
		return variable.NewString(""), nil
	})
	next := func() (kind, text string) {
		var el *ysgo.DialogueElement
		var err error
		var p any
		func() {
			defer func() { p = recover() }()
			el, err = dr.Next(0)
		}()
		switch {
		case p != nil:
			return "panic", fmt.Sprint(p)
		case err != nil:
			return "err", err.Error()
		case el == nil:
			return "end", ""
		case el.Line != nil:
			return "line", el.Line.Text
		}
		return "other", ""
	}
	describe := func(i int) string {
		return fmt.Sprintf("step %d (%s) of\n%s\ninitial variables %v, storer %s, steps %s", i, showC03Step(c.Steps[i]), src, showStore(c.Initial), c.Storer, showC03Steps(c.Steps))
	}
	failures, hostTypeChanges, compoundOnExisting := 0, 0, 0
	var cls []string
	// pass 1 and 2: the node jumps back to itself; then the runner's own snapshot (the variables as of that jump) is
	// restored and the history runs a third time: reads and writes must still go through the supplied storer
	passes := 3
	if len(c.Steps) > 0 && !hasScriptStep(c) {
		passes = 1
	}
	var atJump map[string]mval
	for pass := 0; pass < passes; pass++ {
		if pass == 2 {
			if atJump == nil {
				break
			}
			if rec != nil {
				rec.mute = true
			}
			err := dr.RestoreAt(dr.Snapshot())
			if rec != nil {
				rec.mute = false
			}
			if err != nil {
				return failf("RestoreAt(Snapshot()) failed: %v", err)
			}
			m.store = atJump
			if rec != nil {
				rec.mute = true
			}
			view, problem := storeView(storer, c03Vars)
			if rec != nil {
				rec.mute = false
			}
			if problem != "" {
				return failf("%s after restoring the runner's own snapshot", problem)
			}
			if d := sameStore(m.store, view); d != "" {
				return failf("after RestoreAt(Snapshot()) the supplied storer does not hold the variables as of the last node entry (expected vs storer): %s\nscript:\n%s\nsteps %s", d, src, showC03Steps(c.Steps))
			}
		}
		for i, st := range c.Steps {
			if pass == 1 && atJump == nil && (st.K == "set" || st.K == "declare" || st.K == "show" || st.K == "poke-show" || st.K == "poke-set" || st.K == "poke-opts") {
				// the next Next call performs the jump back to the node start: this is the state a snapshot captures
				atJump = map[string]mval{}
				for k, v := range m.store {
					atJump[k] = v
				}
			}
			writesBefore := 0
			if rec != nil {
				writesBefore = len(rec.writes())
			}
			switch st.K {
			case "host-set":
				v := *st.Val
				v.fix()
				if prev, ok := m.store[st.Var]; ok && prev.T != v.T {
					hostTypeChanges++
				}
				m.store[st.Var] = v
				switch v.T {
				case 'n':
					storer.SetNumberValue(st.Var, v.N)
				case 'b':
					storer.SetBooleanValue(st.Var, v.B)
				case 's':
					storer.SetStringValue(st.Var, v.S)
				}
			case "host-clear":
				// the host empties its storer (a new game): every variable is unknown again, and free to take any type
				m.store = map[string]mval{}
				storer.Clear()
			case "host-read":
				got, ok := storer.GetValue(st.Var)
				want, wok := m.store[st.Var]
				if ok != wok || (ok && !sameVal(toMval(got), want)) {
					return failf("host read of $%s gives %v (present=%v), want %v (present=%v): %s", st.Var, toMval(got), ok, want, wok, describe(i))
				}
			case "set", "declare":
				prev, existed := m.store[st.Var]
				_ = prev
				if st.K == "set" && st.Op != "=" && existed {
					compoundOnExisting++
				}
				cls = append(cls, fmt.Sprintf("op%s", st.Op))
				before := map[string]mval{}
				for k, v := range m.store {
					before[k] = v
				}
				merr := m.assign(st.Var, st.Op, st.E)
				kind, text := next()
				if st.K == "declare" && st.As != "" && merr == nil && kind == "err" {
					// what a clause naming another type than the value's means is not stated: the library ignores the clause; a
					// library that refuses the statement is as good - provided that, like every failing statement, it changes nothing
					if v, _ := evalExpr(st.E, m); v.T != map[string]byte{"number": 'n', "bool": 'b', "string": 's'}[st.As] {
						m.store = before
						merr = evalErrf("declared as another type")
						cls = append(cls, "declare-as-mismatch-refused")
					}
				}
				if kind == "panic" {
					if merr != nil {
						return Verdict{Discard: "panic on a failing statement (C06)"}
					}
					return failf("Next panicked: %s: %s", text, describe(i))
				}
				if merr != nil {
					failures++
					if kind != "err" {
						return failf("the statement must fail (%v) but Next returned %s %q: %s", merr, kind, text, describe(i))
					}
					if rec != nil && len(rec.writes()) != writesBefore {
						return failf("a failing statement wrote to the storer: %v: %s", rec.writes()[writesBefore:], describe(i))
					}
					if kind, text = next(); kind != "line" || text != fmt.Sprintf("M%d", i) {
						return Verdict{Discard: "after an error the runner did not continue at the next statement"}
					}
				} else {
					if kind == "err" {
						return failf("the statement must succeed but Next failed: %s: %s", text, describe(i))
					}
					if kind != "line" || text != fmt.Sprintf("M%d", i) {
						return failf("expected the marker line M%d, got %s %q: %s", i, kind, text, describe(i))
					}
					if rec != nil {
						w := rec.writes()[writesBefore:]
						if len(w) == 0 {
							return failf("a successful assignment to $%s did not write to the supplied storer: %s", st.Var, describe(i))
						}
						for _, one := range w {
							if !strings.HasPrefix(one, "set "+st.Var+" ") {
								return failf("an assignment to $%s wrote something else to the storer: %v: %s", st.Var, w, describe(i))
							}
						}
					}
				}
			case "poke-show":
				old, existed := m.store[st.Var]
				captured = nil
				kind, text := next()
				if kind == "panic" {
					return failf("Next panicked: %s: %s", text, describe(i))
				}
				if !existed {
					if kind != "err" {
						return failf("reading the unknown variable $%s must fail, got %s %q: %s", st.Var, kind, text, describe(i))
					}
					break // the interpolations after the failing one are not evaluated: the host function did not run
				}
				v := *st.Val
				v.fix()
				m.store[st.Var] = v
				if kind != "line" || len(captured) != 2 {
					return failf("expected a line showing $%s twice, got %s %q (captured %v): %s", st.Var, kind, text, captured, describe(i))
				}
				if !sameVal(captured[0], old) || !sameVal(captured[1], v) {
					return failf("within one step the script read $%s = %v, host code called by the script then wrote %v, and the script read %v: reads must go through the storer: %s", st.Var, captured[0], v, captured[1], describe(i))
				}
			case "poke-opts":
				old, existed := m.store[st.Var]
				captured = nil
				kind, text := next()
				if kind == "panic" {
					return failf("Next panicked: %s: %s", text, describe(i))
				}
				if !existed {
					if kind != "err" {
						return failf("reading the unknown variable $%s must fail, got %s %q: %s", st.Var, kind, text, describe(i))
					}
				} else {
					v := *st.Val
					v.fix()
					m.store[st.Var] = v
					if kind != "other" || len(captured) != 2 {
						return failf("expected an option group showing $%s twice, got %s %q (captured %v): %s", st.Var, kind, text, captured, describe(i))
					}
					if !sameVal(captured[0], old) || !sameVal(captured[1], v) {
						return failf("within one option group the first label read $%s = %v, host code called by the second label wrote %v, and the third label read %v: reads must go through the storer: %s", st.Var, captured[0], v, captured[1], describe(i))
					}
				}
				if kind, text = next(); kind != "line" || text != fmt.Sprintf("M%d", i) {
					return failf("expected the marker line M%d after the option group, got %s %q: %s", i, kind, text, describe(i))
				}
			case "poke-set":
				old, existed := m.store[st.Var]
				captured = nil
				kind, text := next()
				if kind == "panic" {
					return failf("Next panicked: %s: %s", text, describe(i))
				}
				if !existed {
					if kind != "err" {
						return failf("reading the unknown variable $%s must fail, got %s %q: %s", st.Var, kind, text, describe(i))
					}
					kind, text = next()
				} else if len(captured) < 1 || !sameVal(captured[0], old) {
					return failf("the script read $%s = %v, want %v: %s", st.Var, captured, old, describe(i))
				}
				v := *st.Val
				v.fix()
				m.store[st.Var] = v // the host function has run
				merr := m.assign(st.Var, st.Op, st.E)
				if merr != nil {
					failures++
					if kind != "err" {
						return failf("after host code called by the script wrote $%s = %v in the same step, the statement must fail (%v) but Next returned %s %q: %s", st.Var, v, merr, kind, text, describe(i))
					}
					kind, text = next()
				}
				if kind != "line" || text != fmt.Sprintf("M%d", i) {
					if kind == "err" {
						return failf("after host code called by the script wrote $%s = %v in the same step, the statement must succeed but Next failed: %s: %s", st.Var, v, text, describe(i))
					}
					return failf("expected the marker line M%d, got %s %q: %s", i, kind, text, describe(i))
				}
			case "show":
				want, ok := m.store[st.Var]
				captured = nil
				kind, text := next()
				if kind == "panic" {
					return failf("Next panicked: %s: %s", text, describe(i))
				}
				if !ok {
					if kind != "err" {
						return failf("reading the unknown variable $%s must fail, got %s %q: %s", st.Var, kind, text, describe(i))
					}
				} else {
					if kind != "line" || len(captured) != 1 {
						return failf("expected a line showing $%s, got %s %q: %s", st.Var, kind, text, describe(i))
					}
					if !sameVal(captured[0], want) {
						return failf("the script read $%s = %v, the last value assigned or written by the host is %v: %s", st.Var, captured[0], want, describe(i))
					}
				}
			}
			if rec != nil {
				rec.mute = true
			}
			view, problem := storeView(storer, c03Vars)
			if rec != nil {
				rec.mute = false
			}
			if problem != "" {
				return failf("%s after %s", problem, describe(i))
			}
			if d := sameStore(m.store, view); d != "" {
				return failf("storer content differs from the model (model vs storer): %s after %s (pass %d over the history)", d, describe(i), pass+1)
			}
		}
	}
	cls = append(cls, "storer="+c.Storer)
	if hostTypeChanges > 0 {
		cls = append(cls, "host-type-change")
	}
	if failures > 0 {
		cls = append(cls, "failing-statement")
	}
	return Verdict{NonTrivial: compoundOnExisting >= 1 && (failures >= 1 || hostTypeChanges >= 1 || hasHostWrite(c)), Classes: cls}
}

func hasScriptStep(c c03Case) bool {
	for _, s := range c.Steps {
		if s.K == "set" || s.K == "declare" || s.K == "show" || s.K == "poke-show" || s.K == "poke-set" || s.K == "poke-opts" {
			return true
		}
	}
	return false
}

func hasHostWrite(c c03Case) bool {
	for _, s := range c.Steps {
		if s.K == "host-set" || s.K == "host-clear" || s.K == "poke-show" || s.K == "poke-set" || s.K == "poke-opts" {
			return true
		}
	}
	return false
}

func showC03Step(s c03Step) string {
	switch s.K {
	case "set":
		return fmt.Sprintf("<<set $%s %s %s>>", s.Var, s.Op, printExpr(s.E, nil))
	case "declare":
		if s.As != "" {
			return fmt.Sprintf("<<declare $%s = %s as %s>>", s.Var, printExpr(s.E, nil), s.As)
		}
		return fmt.Sprintf("<<declare $%s = %s>>", s.Var, printExpr(s.E, nil))
	case "show":
		return "show $" + s.Var
	case "poke-show", "poke-set", "poke-opts":
		v := *s.Val
		v.fix()
		if s.K == "poke-opts" {
			return fmt.Sprintf("in one option group: read $%s, host code writes $%s = %v, read $%s", s.Var, s.Var, v, s.Var)
		}
		if s.K == "poke-show" {
			return fmt.Sprintf("in one step: read $%s, host code writes $%s = %v, read $%s", s.Var, s.Var, v, s.Var)
		}
		return fmt.Sprintf("in one step: read $%s, host code writes $%s = %v, <<set $%s %s %s>>", s.Var, s.Var, v, s.Var, s.Op, printExpr(s.E, nil))
	case "host-set":
		v := *s.Val
		v.fix()
		return fmt.Sprintf("host writes $%s = %v", s.Var, v)
	case "host-clear":
		return "host clears its storer"
	}
	return "host reads $" + s.Var
}

func showC03Steps(steps []c03Step) string {
	parts := make([]string, len(steps))
	for i, s := range steps {
		parts[i] = showC03Step(s)
	}
	return "[" + strings.Join(parts, "; ") + "]"
}

func showStore(m map[string]mval) string {
	keys := make([]string, 0, len(m))
	for k := range m {
		keys = append(keys, k)
	}
	sort.Strings(keys)
	parts := make([]string, len(keys))
	for i, k := range keys {
		v := m[k]
		v.fix()
		parts[i] = "$" + k + "=" + v.String()
	}
	return "{" + strings.Join(parts, " ") + "}"
}

func genC03Value(t *rapid.T, ty byte) mval {
	switch ty {
	case 'n':
		return numVal(rapid.SampledFrom([]float64{0, 1, 2, 3, -4, 0.5, 7, 10, 2.25}).Draw(t, "n"))
	case 'b':
		return boolVal(rapid.Bool().Draw(t, "b"))
	}
	return strVal(rapid.SampledFrom([]string{"", "ab", "cd", "x", "é"}).Draw(t, "s"))
}

func genC03Expr(t *rapid.T) *Expr {
	v := func() string { return rapid.SampledFrom(c03Vars).Draw(t, "var") }
	switch rapid.IntRange(0, 12).Draw(t, "expr") {
	case 0, 1, 2:
		if rapid.IntRange(0, 5).Draw(t, "negative") == 0 {
			// (0 * -2 and 0 / -2 are -0: the value stored is the value computed, sign of zero included)
			return neg(num(rapid.SampledFrom([]string{"1", "2", "0", "0.5"}).Draw(t, "neglit")))
		}
		return num(rapid.SampledFrom([]string{"0", "1", "2", "3", "0.5", "7", "010", "017", "0100", "08"}).Draw(t, "lit"))
	case 3:
		return boolean(rapid.Bool().Draw(t, "lit"))
	case 4, 5:
		return str(rapid.SampledFrom([]string{"", "cd", "x", "é", `q\"`, `\"q\"`}).Draw(t, "lit"))
	case 6, 7:
		return varRef(v())
	case 8:
		return bin(rapid.SampledFrom([]string{"+", "-", "*", "/", "%"}).Draw(t, "op"), varRef(v()), num(rapid.SampledFrom([]string{"1", "2", "0"}).Draw(t, "lit")))
	case 9:
		return bin("+", varRef(v()), str("z"))
	case 10:
		return not(varRef(v()))
	case 11:
		return bin(rapid.SampledFrom([]string{"<", "==", ">="}).Draw(t, "op"), varRef(v()), num("2"))
	default:
		return bin("+", varRef(v()), varRef(v()))
	}
}

var c03Hist = Register(Prop[c03Case]{
	ID: "C03", Name: "histories",
	Gen: func(t *rapid.T) c03Case {
		c := c03Case{Initial: map[string]mval{}, Storer: rapid.SampledFrom([]string{"recording", "in-memory"}).Draw(t, "storer")}
		for _, iv := range []struct {
			name string
			ty   byte
		}{{"a", 'n'}, {"b", 'n'}, {"f", 'b'}, {"s", 's'}} {
			if rapid.IntRange(0, 4).Draw(t, "init") != 0 {
				c.Initial[iv.name] = genC03Value(t, iv.ty)
			}
		}
		n := rapid.IntRange(1, envInt("VERIF_C03_STEPS", 25)).Draw(t, "steps")
		for i := 0; i < n; i++ {
			name := rapid.SampledFrom(c03Vars).Draw(t, "var")
			switch rapid.IntRange(0, 14).Draw(t, "step") {
			case 14:
				v := genC03Value(t, rapid.SampledFrom([]byte{'n', 'n', 'b', 's'}).Draw(t, "type"))
				c.Steps = append(c.Steps, c03Step{K: "poke-opts", Var: name, Val: &v})
			case 12:
				v := genC03Value(t, rapid.SampledFrom([]byte{'n', 'n', 'b', 's'}).Draw(t, "type"))
				c.Steps = append(c.Steps, c03Step{K: "poke-show", Var: name, Val: &v})
			case 13:
				v := genC03Value(t, rapid.SampledFrom([]byte{'n', 'n', 'b', 's'}).Draw(t, "type"))
				op := rapid.SampledFrom([]string{"=", "+=", "+=", "-=", "*="}).Draw(t, "op")
				c.Steps = append(c.Steps, c03Step{K: "poke-set", Var: name, Op: op, E: genC03Expr(t), Val: &v})
			case 0, 1, 2, 3, 4:
				op := rapid.SampledFrom([]string{"=", "=", "+=", "+=", "-=", "*=", "/=", "%="}).Draw(t, "op")
				c.Steps = append(c.Steps, c03Step{K: "set", Var: name, Op: op, E: genC03Expr(t)})
			case 5:
				lit := []*Expr{num("3"), boolean(true), str("ab"), num("0.5"), boolean(false), str("")}
				c.Steps = append(c.Steps, c03Step{K: "declare", Var: name, Op: "=", E: rapid.SampledFrom(lit).Draw(t, "lit"),
					As: rapid.SampledFrom([]string{"", "", "number", "string", "bool"}).Draw(t, "as")})
			case 6, 7:
				c.Steps = append(c.Steps, c03Step{K: "show", Var: name})
			case 8, 9:
				v := genC03Value(t, rapid.SampledFrom([]byte{'n', 'b', 's'}).Draw(t, "type"))
				c.Steps = append(c.Steps, c03Step{K: "host-set", Var: name, Val: &v})
			default:
				if rapid.IntRange(0, 4).Draw(t, "clear") == 0 {
					c.Steps = append(c.Steps, c03Step{K: "host-clear", Var: name})
					break
				}
				c.Steps = append(c.Steps, c03Step{K: "host-read", Var: name})
			}
		}
		return c
	},
	Run: runC03,
	Render: func(c c03Case) any {
		return map[string]any{"initial": showStore(c.Initial), "storer": c.Storer, "steps": showC03Steps(c.Steps)}
	},
})

func TestC03Histories(t *testing.T) { Check(t, c03Hist) }

// Exhaustive: every assignment operator x every (current type or unset) x every assigned type, on both storers.
var c03Table = Register(Prop[c03Case]{ID: "C03", Name: "operator-table", Run: runC03})

func TestC03OperatorTable(t *testing.T) {
	Enumerate(t, c03Table, true, "every assignment operator (and declare) x current value in {unset, number, boolean, string} x assigned literal/expression of each type x both storers, followed by a read-back",
		func(yield func(c03Case) bool) {
			currents := []*mval{nil, ptr(numVal(6)), ptr(boolVal(true)), ptr(strVal("ab"))}
			rhs := []*Expr{num("4"), num("0"), boolean(false), str("cd"), varRef("other"), bin("+", varRef("other"), num("1")), varRef("missing")}
			for _, storer := range []string{"recording", "in-memory"} {
				for _, cur := range currents {
					for _, op := range []string{"=", "+=", "-=", "*=", "/=", "%=", "declare"} {
						for _, e := range rhs {
							init := map[string]mval{"other": numVal(3)}
							if cur != nil {
								init["x"] = *cur
							}
							st := c03Step{K: "set", Var: "x", Op: op, E: e}
							if op == "declare" {
								if e.K == "bin" {
									continue // declare takes a value, not an expression
								}
								st = c03Step{K: "declare", Var: "x", Op: "=", E: e}
							}
							c := c03Case{Initial: init, Storer: storer, Steps: []c03Step{st, {K: "show", Var: "x"}, {K: "host-read", Var: "x"}}}
							if !yield(c) {
								return
							}
						}
					}
				}
			}
		})
}

func ptr[T any](v T) *T { return &v }
