//go:build verif

package harness

// C05 — loading any input yields a runner or an error; bad syntax is an error.

import (
	"bufio"
	"bytes"
	"errors"
	"fmt"
	"io"
	"os"
	"regexp"
	"strings"
	"testing"
	"testing/iotest"
	"time"

	"github.com/antlr4-go/antlr/v4"
	"github.com/remieven/ysgo"
	"pgregory.net/rapid"
)

type c05Case struct {
	Pieces []string `json:"pieces"`          // one per reader
	Input  string   `json:"input,omitempty"` // single-reader shorthand (native fuzz crashers)
	Seed   string   `json:"seed"`
	Kind   string   `json:"kind,omitempty"`
	// Expect, when set, is a construction-time expectation independent of the grammar code:
	// "accept" (valid by construction) or "reject" (invalid by construction).
	Expect string `json:"expect,omitempty"`
	// Readers: per piece, the kind of io.Reader that delivers it (0 strings.Reader; 1 bytes.Buffer; 2 a SectionReader of which
	// the host has already read a preamble; 3 an *os.File positioned behind a preamble; 4 one byte per Read; 5 data and
	// io.EOF in the same Read; 6 bufio.Reader; 7 an exhausted-then-refilled pipe). What the library must load is what is
	// still to be read.
	Readers []int `json:"readers,omitempty"`
	// NoReaders: the runner is created without any reader at all (no input is not a script)
	NoReaders bool `json:"no_readers,omitempty"`
}

type pieceValidity struct {
	valid               bool
	lexErrs, parseErrs  int
	panicked            bool
	mixedIndent, hasSep bool
}

// independentValidity parses one piece with its own lexer/parser pair and its own error listeners.
func independentValidity(piece string) (pv pieceValidity) {
	defer func() {
		if r := recover(); r != nil {
			pv.valid = false
			pv.panicked = true
		}
	}()
	lexErr, parseErr := &silentErrors{}, &silentErrors{}
	lexer := ysgo.VerifNewLexer(antlr.NewInputStream(piece))
	lexer.RemoveErrorListeners()
	lexer.AddErrorListener(lexErr)
	stream := antlr.NewCommonTokenStream(lexer, antlr.TokenDefaultChannel)
	p := ysgo.VerifNewParser(stream)
	p.RemoveErrorListeners()
	p.AddErrorListener(parseErr)
	p.Dialogue()
	// the dialogue rule has no EOF: a parse that stops before the end of the input has not accepted the input
	if stream.LA(1) != antlr.TokenEOF {
		parseErr.n++
	}
	pv.lexErrs, pv.parseErrs = lexErr.n, parseErr.n
	pv.valid = lexErr.n == 0 && parseErr.n == 0
	pv.hasSep = strings.Contains(piece, "---")
	return pv
}

var seedRe = regexp.MustCompile(`^[0-9a-z]*$`)

// c05Limit bounds one decision. Error recovery of the generated parser is quadratic in the number of tokens after the
// error (a 140 KiB comment behind an unclosed expression takes minutes): slowness on a large input is not a verdict.
// On a small input nothing legitimate takes this long; there the bound stands for "does not terminate".
const (
	c05Limit      = 150 * time.Second
	c05SmallInput = 8192
)

func runC05(c c05Case) Verdict {
	if c.NoReaders {
		c.Pieces = []string{}
	} else if c.Pieces == nil {
		c.Pieces = []string{c.Input}
	}
	size := 0
	for _, p := range c.Pieces {
		size += len(p)
	}
	done := make(chan Verdict, 1)
	go func() { done <- safeRun(decideC05, c) }()
	select {
	case v := <-done:
		return v
	case <-time.After(c05Limit):
		if size <= c05SmallInput {
			return failf("creating a runner for %d bytes of input did not finish within %v: it does not terminate", size, c05Limit)
		}
		return Verdict{Discard: "slow on a large input (time budget, inconclusive)"}
	}
}

func decideC05(c c05Case) Verdict {
	allValid := len(c.Pieces) > 0 // no reader at all: empty input, which is not a script
	var cls []string
	lexOnly, parseAny, hasBody := false, false, false
	for _, p := range c.Pieces {
		pv := independentValidity(p)
		allValid = allValid && pv.valid
		if pv.lexErrs > 0 && pv.parseErrs == 0 {
			lexOnly = true
		}
		if pv.parseErrs > 0 {
			parseAny = true
		}
		if pv.panicked {
			cls = append(cls, "independent-parse-panicked")
		}
		hasBody = hasBody || pv.hasSep
		if p == "" {
			cls = append(cls, "empty-piece")
		}
	}
	seedOK := seedRe.MatchString(c.Seed)
	wantOK := allValid && seedOK

	readers := make([]io.Reader, len(c.Pieces))
	readFails := false
	const preamble = "SAVE-FILE-HEADER v2\ntitle: NotPartOfTheScript\n---\n"
	for i, p := range c.Pieces {
		kind := 0
		if i < len(c.Readers) {
			kind = c.Readers[i]
		}
		switch kind {
		case 1:
			readers[i] = bytes.NewBufferString(p)
		case 2:
			sr := io.NewSectionReader(strings.NewReader(preamble+p), 0, int64(len(preamble)+len(p)))
			_, _ = io.ReadFull(sr, make([]byte, len(preamble)))
			readers[i] = sr
		case 3:
			f, ferr := os.CreateTemp(outDir(), "c05-reader-*.yarn")
			if ferr != nil {
				readers[i] = strings.NewReader(p)
				break
			}
			defer os.Remove(f.Name())
			defer f.Close()
			_, _ = f.WriteString(preamble + p)
			_, _ = f.Seek(int64(len(preamble)), io.SeekStart)
			readers[i] = f
		case 4:
			readers[i] = iotest.OneByteReader(strings.NewReader(p))
		case 5:
			readers[i] = iotest.DataErrReader(strings.NewReader(p))
		case 6:
			readers[i] = bufio.NewReaderSize(strings.NewReader(p), 16)
		case 7:
			pr, pw := io.Pipe()
			go func(p string) {
				for len(p) > 0 {
					n := min(len(p), 7)
					_, _ = pw.Write([]byte(p[:n]))
					p = p[n:]
				}
				pw.Close()
			}(p)
			readers[i] = pr
		case 8:
			// a reader that fails (not with io.EOF) behind the last complete node, or half-way: the script cannot be loaded
			cut := strings.LastIndex(p, "===\n")
			if cut >= 0 {
				cut += 4
			} else {
				cut = len(p) / 2
			}
			if cut >= len(p) {
				cut = len(p) * 2 / 3
			}
			readers[i] = io.MultiReader(strings.NewReader(p[:cut]), iotest.ErrReader(errInjectedRead))
			readFails = true
		default:
			readers[i] = strings.NewReader(p)
		}
	}
	var (
		dr       *ysgo.DialogueRunner
		err      error
		panicked any
	)
	func() {
		defer func() { panicked = recover() }()
		dr, err = ysgo.NewDialogueRunner(nil, c.Seed, readers...)
	}()
	if panicked != nil {
		return failf("NewDialogueRunner panicked: %v", panicked)
	}
	if readFails {
		if err == nil {
			return failf("a reader failed with %q in the middle of the input, yet a runner was created from what had been read so far", errInjectedRead)
		}
		return Verdict{NonTrivial: true, Classes: []string{"reader-fails"}}
	}
	if (dr == nil) == (err == nil) {
		return failf("NewDialogueRunner returned runner=%v and err=%v: exactly one must be set", dr != nil, err)
	}
	if wantOK && err != nil {
		return failf("every piece is syntactically valid and the seed is legal, but loading failed: %v", err)
	}
	if !wantOK && err == nil {
		why := "the seed is not in [0-9a-z]*"
		if !allValid {
			why = "an independent parse of the same grammar reports syntax errors"
		}
		return failf("input was loaded although %s", why)
	}
	switch c.Expect {
	case "accept":
		if err != nil {
			return failf("script is valid by construction but was refused: %v", err)
		}
	case "reject":
		if err == nil {
			return failf("script is invalid by construction (%s) but was loaded", c.Kind)
		}
	}
	cls = append(cls, "kind="+c.Kind, fmt.Sprintf("readers=%d", len(c.Pieces)))
	if !seedOK {
		cls = append(cls, "bad-seed")
	}
	if lexOnly {
		cls = append(cls, "lexer-only-errors")
	}
	if parseAny {
		cls = append(cls, "parser-errors")
	}
	if wantOK {
		cls = append(cls, "loaded")
	} else {
		cls = append(cls, "refused")
	}
	nonTrivial := (!allValid && hasBody) || (allValid && (c.Kind == "mutated" || c.Kind == "split-nodes" || c.Kind == "generated"))
	return Verdict{NonTrivial: nonTrivial, Classes: cls}
}

func genSeed(t *rapid.T) string {
	switch rapid.IntRange(0, 9).Draw(t, "seedkind") {
	case 0:
		return ""
	case 1:
		return rapid.String().Draw(t, "seed")
	case 2:
		return rapid.StringMatching(`[0-9a-zA-Z _-]{1,8}`).Draw(t, "seed")
	case 3:
		return rapid.StringMatching(`[0-9a-z]{10,40}`).Draw(t, "seed")
	default:
		return rapid.StringMatching(`[0-9a-z]{1,12}`).Draw(t, "seed")
	}
}

// splitNodes cuts a script after lines consisting of "===" (node boundaries).
func splitNodes(s string) []string {
	var out []string
	cur := ""
	for _, line := range strings.SplitAfter(s, "\n") {
		cur += line
		if strings.TrimSpace(line) == "===" {
			out = append(out, cur)
			cur = ""
		}
	}
	if strings.TrimSpace(cur) != "" || len(out) == 0 {
		out = append(out, cur)
	}
	return out
}

func genC05(t *rapid.T) c05Case {
	c := c05Case{Seed: genSeed(t)}
	var whole string
	switch rapid.IntRange(0, 11).Draw(t, "kind") {
	case 0:
		c.Kind = "arbitrary"
		whole = string(rapid.SliceOfN(rapid.Byte(), 0, 300).Draw(t, "bytes"))
	case 1:
		c.Kind = "arbitrary"
		whole = rapid.String().Draw(t, "s")
	case 2, 3:
		c.Kind = "soup"
		whole = genFragmentSoup(t, 40)
	case 4:
		c.Kind = "indent-soup"
		whole = genIndentSoup(t)
	case 5:
		c.Kind = "valid"
		whole = genBaseScript(t)
	case 6:
		c.Kind = "split-nodes"
		whole = genBaseScript(t)
		nodes := splitNodes(whole)
		// distribute nodes over up to 4 readers
		k := rapid.IntRange(1, min(4, len(nodes))).Draw(t, "readers")
		c.Pieces = make([]string, k)
		for i, n := range nodes {
			j := i * k / len(nodes)
			c.Pieces[j] += n
		}
		return c
	default:
		c.Kind = "mutated"
		whole = mutateText(t, genBaseScript(t), rapid.IntRange(1, 3).Draw(t, "k"))
	}
	// random byte-offset splits
	k := rapid.SampledFrom([]int{1, 1, 1, 1, 2, 2, 3, 4}).Draw(t, "readers")
	c.Pieces = nil
	rest := whole
	for i := 1; i < k; i++ {
		off := rapid.IntRange(0, len(rest)).Draw(t, "split")
		c.Pieces = append(c.Pieces, rest[:off])
		rest = rest[off:]
	}
	c.Pieces = append(c.Pieces, rest)
	return c
}

func renderC05(c c05Case) any {
	return map[string]any{"kind": c.Kind, "seed": c.Seed, "pieces": c.Pieces}
}

var errInjectedRead = errors.New("connection reset while reading the script")

// withReaderKinds draws, for a third of the cases, the kind of reader that delivers each piece.
func withReaderKinds(t *rapid.T, c c05Case) c05Case {
	if rapid.IntRange(0, 2).Draw(t, "readerkinds") == 0 {
		c.Readers = rapid.SliceOfN(rapid.IntRange(0, 8), len(c.Pieces), len(c.Pieces)).Draw(t, "kinds")
	}
	return c
}

var c05Load = Register(Prop[c05Case]{ID: "C05", Name: "load", Gen: func(t *rapid.T) c05Case { return withReaderKinds(t, genC05(t)) }, Run: runC05, Render: renderC05})

func TestC05Load(t *testing.T) { Check(t, c05Load) }

// Constructed expectations that do not depend on the grammar code: every fixture must load, and a catalogue of
// single edits that make a script invalid under any reading of the Yarn syntax must be refused.
var c05Catalogue = Register(Prop[c05Case]{ID: "C05", Name: "catalogue", Run: runC05, Render: renderC05})

func invalidEdits(valid string) map[string]string {
	out := map[string]string{}
	out["empty input"] = ""
	out["only whitespace"] = " \n\t\n"
	out["no node, only text"] = "hello world\n"
	out["missing body start"] = strings.Replace(valid, "---\n", "", 1)
	out["missing body end"] = strings.TrimSuffix(strings.TrimSpace(valid), "===")
	out["unterminated if"] = strings.Replace(valid, "---\n", "---\n<<if true>>\nx\n", 1)
	out["endif without if"] = strings.Replace(valid, "---\n", "---\n<<endif>>\n", 1)
	out["else without if"] = strings.Replace(valid, "---\n", "---\n<<else>>\n", 1)
	out["unclosed expression in line"] = strings.Replace(valid, "---\n", "---\nvalue {1 + \n", 1)
	out["empty expression"] = strings.Replace(valid, "---\n", "---\nvalue {}\n", 1)
	out["set without value"] = strings.Replace(valid, "---\n", "---\n<<set $x to>>\n", 1)
	out["set without variable"] = strings.Replace(valid, "---\n", "---\n<<set to 1>>\n", 1)
	out["unclosed command"] = strings.Replace(valid, "---\n", "---\n<<set $x to 1\n", 1)
	out["dangling operator"] = strings.Replace(valid, "---\n", "---\n<<set $x to 1 + >>\n", 1)
	out["unbalanced parenthesis"] = strings.Replace(valid, "---\n", "---\n<<set $x to (1 + 2>>\n", 1)
	out["jump without destination"] = strings.Replace(valid, "---\n", "---\n<<jump >>\n", 1)
	out["mixed tabs and spaces"] = strings.Replace(valid, "---\n", "---\n-> a\n \tb\n", 1)
	out["header without colon"] = "title A\n" + valid
	out["text after tags"] = strings.Replace(valid, "---\n", "---\nline #tag more text\n", 1)
	out["unterminated string"] = strings.Replace(valid, "---\n", "---\n<<set $x to \"abc>>\n", 1)
	out["call without parentheses"] = strings.Replace(valid, "---\n", "---\n<<call f>>\n", 1)
	out["declare without value"] = strings.Replace(valid, "---\n", "---\n<<declare $x>>\n", 1)
	out["two operators"] = strings.Replace(valid, "---\n", "---\n<<if 1 * / 2>>\nx\n<<endif>>\n", 1)
	out["hashtag line between two nodes"] = valid + "#tag\n" + valid
	out["hashtag line after the last node"] = valid + "#tag\n"
	out["indented header after a node"] = valid + "    title: Z\n---\nz\n===\n"
	out["indented text after the last node"] = valid + "    trailing text\n"
	out["body end inside if"] = strings.Replace(valid, "---\n", "---\n<<if true>>\n===\n<<endif>>\n", 1)
	return out
}

func TestC05Catalogue(t *testing.T) {
	Enumerate(t, c05Catalogue, true, "every repository fixture and mini script must load; every catalogue edit applied to every mini script must be refused",
		func(yield func(c05Case) bool) {
			for _, s := range append(append([]string{}, loadFixtures()...), miniScripts...) {
				if !yield(c05Case{Pieces: []string{s}, Seed: "abc", Kind: "valid", Expect: "accept"}) {
					return
				}
				if nodes := splitNodes(s); len(nodes) > 1 {
					if !yield(c05Case{Pieces: nodes, Seed: "", Kind: "split-nodes", Expect: "accept"}) {
						return
					}
				}
			}
			for _, base := range miniScripts {
				edits := invalidEdits(base)
				names := make([]string, 0, len(edits))
				for n := range edits {
					names = append(names, n)
				}
				sortStrings(names)
				for _, n := range names {
					if !yield(c05Case{Pieces: []string{edits[n]}, Seed: "abc", Kind: n, Expect: "reject"}) {
						return
					}
					// an invalid piece among valid ones must still be refused
					if !yield(c05Case{Pieces: []string{base, edits[n]}, Seed: "abc", Kind: n, Expect: "reject"}) {
						return
					}
				}
				for _, seed := range []string{"A", "a b", "é", "-1", "abc!", "ABC"} {
					if !yield(c05Case{Pieces: []string{base}, Seed: seed, Kind: "bad seed", Expect: "reject"}) {
						return
					}
				}
			}
			for _, seed := range []string{"abc", "", "A"} {
				if !yield(c05Case{NoReaders: true, Seed: seed, Kind: "no readers", Expect: "reject"}) {
					return
				}
			}
		})
}

func FuzzC05(f *testing.F) {
	for _, s := range loadFixtures() {
		f.Add(s)
	}
	for _, s := range miniScripts {
		f.Add(s)
		for _, e := range invalidEdits(s) {
			f.Add(e)
		}
	}
	for _, s := range hostileFragments {
		f.Add("title: A\n---\n" + s + "\n    " + s + "\n===\n")
	}
	f.Fuzz(func(t *testing.T, s string) {
		if len(s) > 2048 {
			return
		}
		DecideFuzz(t, c05Load, c05Case{Pieces: []string{s}, Seed: "fuzz", Kind: "fuzz"})
	})
}

// ---------------------------------------------------------------------------------------
// constructed expectations over generated scripts (independent of the grammar code)

var mixedPrefixes = []string{" \t", "\t ", "\t    ", "    \t", "\t\t ", " \t\t", "\t        ", "        \t", "  \t  ", "\t \t"}

func genC05Constructed(t *rapid.T) c05Case {
	sc := genScript(t, scriptOpts{maxNodes: 3, maxDepth: 3, maxBody: 4})
	lay := genLayout(t)
	willBreak := rapid.Bool().Draw(t, "break")
	lay.MixedEnds = lay.MixedEnds && !willBreak // (the edits below find lines by their LF)
	if willBreak {
		// (error recovery is quadratic in what follows the error: no very long lines behind a syntax error)
		lay.LongNoise = min(lay.LongNoise, 300)
	}
	pieces := renderScript(sc, &lay)
	c := c05Case{Pieces: pieces, Seed: "s1", Kind: "generated", Expect: "accept"}
	if rapid.IntRange(0, 5).Draw(t, "longliteral") == 0 {
		// number literals of any length are syntactically valid (beyond the largest double they read as infinity)
		digits := rapid.SampledFrom([]string{"1", "2", "9"}).Draw(t, "first") + strings.Repeat(rapid.SampledFrom([]string{"0", "9", "5"}).Draw(t, "digit"), rapid.SampledFrom([]int{25, 307, 308, 309, 400, 5000}).Draw(t, "length"))
		stmt := rapid.SampledFrom([]string{"<<set $huge to %s>>\n", "huge {%s}\n", "<<if false>>\n<<set $huge to %s + 1>>\n<<endif>>\n", "<<declare $huge = %s>>\n", "<<set $huge to 0.%s>>\n"}).Draw(t, "where")
		pi := rapid.IntRange(0, len(pieces)-1).Draw(t, "piece")
		pieces[pi] = strings.Replace(pieces[pi], "---\n", "---\n"+fmt.Sprintf(stmt, digits), 1)
		c.Kind = "generated + long number literal"
	}
	if willBreak {
		// one edit that makes the script invalid under any reading of the syntax
		pi := rapid.IntRange(0, len(pieces)-1).Draw(t, "piece")
		lines := strings.SplitAfter(pieces[pi], "\n")
		var body, endifs, commands, braces, ends []int
		inBody := false
		for i, l := range lines {
			trimmed := strings.TrimSpace(l)
			switch {
			case trimmed == "---":
				inBody = true
			case trimmed == "===":
				inBody = false
				ends = append(ends, i)
			case inBody && trimmed != "" && !strings.HasPrefix(trimmed, "//"):
				body = append(body, i)
				withoutComment := trimmed
				if j := strings.Index(withoutComment, "//"); j >= 0 {
					withoutComment = strings.TrimSpace(withoutComment[:j])
				}
				if strings.HasPrefix(trimmed, "<<") && strings.Contains(trimmed, "endif") {
					endifs = append(endifs, i)
				}
				if strings.HasPrefix(trimmed, "<<") && strings.HasSuffix(withoutComment, ">>") {
					commands = append(commands, i)
				}
				if strings.Contains(trimmed, "{") && !strings.HasPrefix(trimmed, "<<") && !strings.Contains(trimmed, "//") {
					braces = append(braces, i)
				}
			}
		}
		pick := func(xs []int, label string) int { return xs[rapid.IntRange(0, len(xs)-1).Draw(t, label)] }
		edit := rapid.SampledFrom([]string{"mixed-indentation", "mixed-indentation", "drop-endif", "extra-endif", "unclosed-if", "drop-command-end", "drop-closing-brace", "drop-node-end", "stray-else", "split-node-end", "split-endif", "node-end-inside-block", "node-end-inside-block"}).Draw(t, "edit")
		// characters that are not white space and not part of any structural token: inside one they break it
		intruder := rapid.SampledFrom([]string{"\ufeff", "\u200b", "x", ".", "\u00ad", "é", "\u2060"}).Draw(t, "intruder")
		done := false
		switch {
		case edit == "mixed-indentation" && len(body) > 0:
			i := pick(body, "line")
			lines[i] = rapid.SampledFrom(mixedPrefixes).Draw(t, "prefix") + strings.TrimLeft(lines[i], " \t")
			done = true
		case edit == "drop-endif" && len(endifs) > 0:
			lines[pick(endifs, "line")] = ""
			done = true
		case edit == "extra-endif" && len(body) > 0:
			i := pick(body, "line")
			lines[i] = "<<endif>>\n" + lines[i]
			done = true
		case edit == "stray-else" && len(body) > 0 && len(endifs) == 0:
			i := pick(body, "line")
			lines[i] = "<<else>>\n" + lines[i]
			done = true
		case edit == "unclosed-if" && len(ends) > 0:
			i := pick(ends, "line")
			lines[i] = "<<if true>>\nnever closed\n" + lines[i]
			done = true
		case edit == "drop-command-end" && len(commands) > 0:
			i := pick(commands, "line")
			if j := strings.LastIndex(lines[i], ">>"); j >= 0 {
				lines[i] = lines[i][:j] + lines[i][j+2:]
				done = true
			}
		case edit == "drop-closing-brace" && len(braces) > 0:
			i := pick(braces, "line")
			if j := strings.LastIndex(lines[i], "}"); j >= 0 {
				lines[i] = lines[i][:j] + lines[i][j+1:]
				done = true
			}
		case edit == "drop-node-end" && len(ends) > 0:
			lines[ends[len(ends)-1]] = ""
			done = true
		case edit == "node-end-inside-block" && len(ends) > 0:
			// the node's end marker written at the indentation of the (indented) statement before it: the block is still open
			type cand struct {
				end int
				ind string
			}
			var cands []cand
			for _, i := range ends {
				j := i - 1
				for j >= 0 && (strings.TrimSpace(lines[j]) == "" || strings.HasPrefix(strings.TrimSpace(lines[j]), "//")) {
					j--
				}
				if j < 0 {
					continue
				}
				prev := lines[j]
				ind := prev[:len(prev)-len(strings.TrimLeft(prev, " \t"))]
				if ind != "" && !strings.HasPrefix(strings.TrimSpace(prev), "<<endif") && !strings.HasPrefix(strings.TrimSpace(prev), "<<else") {
					cands = append(cands, cand{i, ind})
				}
			}
			if len(cands) > 0 {
				k := cands[rapid.IntRange(0, len(cands)-1).Draw(t, "which")]
				lines[k.end] = k.ind + strings.TrimLeft(lines[k.end], " \t")
				done = true
			}
		case edit == "split-node-end" && len(ends) > 0:
			// the last node's end marker with a foreign character inside: not an end marker, the body never ends
			i := ends[len(ends)-1]
			at := strings.Index(lines[i], "===") + rapid.IntRange(1, 2).Draw(t, "at")
			lines[i] = lines[i][:at] + intruder + lines[i][at:]
			done = true
		case edit == "split-endif" && len(endifs) > 0:
			i := pick(endifs, "line")
			if j := strings.Index(lines[i], "endif"); j >= 0 {
				at := j + rapid.IntRange(1, 5).Draw(t, "at")
				lines[i] = lines[i][:at] + intruder + lines[i][at:]
				done = true
			}
		}
		if !done {
			return c
		}
		pieces[pi] = strings.Join(lines, "")
		c.Kind, c.Expect = "generated + "+edit, "reject"
	}
	return c
}

var c05Constructed = Register(Prop[c05Case]{ID: "C05", Name: "constructed", Gen: func(t *rapid.T) c05Case { return withReaderKinds(t, genC05Constructed(t)) }, Run: runC05, Render: renderC05})

func TestC05Constructed(t *testing.T) { Check(t, c05Constructed) }

// ---------------------------------------------------------------------------------------
// sequences of loads in one process: whatever was loaded before (valid, invalid, cut in the middle of an
// indented block) must not influence the next load

type c05SeqCase struct {
	Loads []c05Case `json:"loads"`
}

var lexerTrailers = []string{"\n    // indented trailing comment", "\n    ", "\n\t\t// c", "    ", "\n        -> x", "\n    y\n        z", "\n  <<", "\n    {"}

func runC05Seq(c c05SeqCase) Verdict {
	refused := 0
	for i, l := range c.Loads {
		v := runC05(l)
		if v.Fail != "" {
			return failf("load %d of %d in one process: %s", i+1, len(c.Loads), v.Fail)
		}
		for _, cl := range v.Classes {
			if cl == "refused" {
				refused++
			}
		}
	}
	return Verdict{NonTrivial: len(c.Loads) >= 2 && refused >= 1 && refused < len(c.Loads), Classes: []string{fmt.Sprintf("loads=%d", len(c.Loads)), fmt.Sprintf("refused=%d", refused)}}
}

var c05Seq = Register(Prop[c05SeqCase]{
	ID: "C05", Name: "sequence",
	Gen: func(t *rapid.T) c05SeqCase {
		var c c05SeqCase
		if rapid.IntRange(0, 5).Draw(t, "failingreads") == 0 {
			// many loads whose reader fails, then a valid script: whatever a failed read leaves behind (a slot, a lock, a pooled
			// object) adds up
			n := rapid.SampledFrom([]int{3, 15, 16, 17, 33, 70}).Draw(t, "failures")
			base := genBaseScript(t)
			for i := 0; i < n; i++ {
				c.Loads = append(c.Loads, c05Case{Pieces: []string{base}, Seed: "a", Kind: "reader fails", Readers: []int{8}})
			}
			c.Loads = append(c.Loads, c05Case{Pieces: []string{genBaseScript(t)}, Seed: "z9", Kind: "valid", Expect: "accept"})
			return c
		}
		n := rapid.IntRange(1, 3).Draw(t, "before")
		for i := 0; i < n; i++ {
			l := genC05(t)
			if rapid.IntRange(0, 2).Draw(t, "trailer") == 0 {
				l = c05Case{Pieces: []string{genBaseScript(t) + rapid.SampledFrom(lexerTrailers).Draw(t, "tr")}, Seed: "a", Kind: "valid+trailer"}
			}
			c.Loads = append(c.Loads, l)
		}
		c.Loads = append(c.Loads, c05Case{Pieces: []string{genBaseScript(t)}, Seed: "z9", Kind: "valid", Expect: "accept"})
		return c
	},
	Run: runC05Seq,
})

func TestC05Sequence(t *testing.T) { Check(t, c05Seq) }
