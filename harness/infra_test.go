//go:build verif

// Package harness contains the property-based checks deciding C01..C20 for ysgo.
//
// infra.go: the thin layer between rapid (or an enumerator, or the native fuzzer) and the
// per-property deciders. A Case is a plain JSON-serialisable value; Run decides one Case
// against the oracle without touching rapid, which is what makes every shrunk failure a
// library-free replay file.
package harness

import (
	"encoding/base64"
	"encoding/binary"
	"encoding/json"
	"fmt"
	"hash/fnv"
	"os"
	"path/filepath"
	"runtime/debug"
	"sort"
	"strconv"
	"strings"
	"testing"
	"time"
	"unicode/utf8"

	"pgregory.net/rapid"
)

// Verdict is what deciding one case yields.
type Verdict struct {
	Fail       string   // non-empty: the property is violated on this case
	Discard    string   // non-empty: case is outside the property's domain (counted, not decided)
	NonTrivial bool     // by the property's stated rule
	Classes    []string // labels for the class histogram
}

func failf(format string, args ...any) Verdict { return Verdict{Fail: fmt.Sprintf(format, args...)} }

// Prop describes one sub-check of a property.
type Prop[C any] struct {
	ID     string           // property id, e.g. "C20"
	Name   string           // sub-check name, e.g. "queue"
	Gen    func(*rapid.T) C // nil for enumerated / fuzzed sub-checks
	Run    func(C) Verdict
	Render func(C) any // how a case looks in evidence samples (default: the case itself)
	// Minimize, when set, is applied to the case rapid shrank to: it proposes smaller cases and keeps those for
	// which stillFails holds (structural delta debugging; rapid shrinks the random stream, not the structure).
	Minimize func(c C, stillFails func(C) bool) C
}

type replayFile struct {
	Property string          `json:"property"`
	Check    string          `json:"check"`
	Fail     string          `json:"fail,omitempty"`
	Case     json.RawMessage `json:"case"`
}

var replayers = map[string]func(json.RawMessage) (Verdict, error){}

// Register makes a sub-check replayable from a file. Called from init functions.
func Register[C any](p Prop[C]) Prop[C] {
	key := p.ID + "/" + p.Name
	if _, dup := replayers[key]; dup {
		panic("duplicate sub-check " + key)
	}
	replayers[key] = func(raw json.RawMessage) (Verdict, error) {
		var c C
		if err := json.Unmarshal(raw, &c); err != nil {
			return Verdict{}, err
		}
		return safeRun(p.Run, c), nil
	}
	return p
}

func safeRun[C any](run func(C) Verdict, c C) (v Verdict) {
	start := time.Now()
	defer func() {
		// cases that take long are logged (a time budget is never a verdict, but the generator should know)
		if d := time.Since(start); d > 3*time.Second {
			raw, _ := json.Marshal(c)
			if len(raw) > 3000 {
				raw = append(raw[:3000], []byte("...")...)
			}
			if f, err := os.OpenFile(filepath.Join(outDir(), "slow-cases.log"), os.O_APPEND|os.O_CREATE|os.O_WRONLY, 0o644); err == nil {
				fmt.Fprintf(f, "%v %T %s\n", d, c, raw)
				f.Close()
			}
		}
	}()
	defer func() {
		if r := recover(); r != nil {
			v = Verdict{Fail: fmt.Sprintf("panic while deciding the case: %v\n%s", r, trimStack(debug.Stack()))}
		}
	}()
	return run(c)
}

func trimStack(b []byte) string {
	lines := strings.Split(string(b), "\n")
	if len(lines) > 24 {
		lines = lines[:24]
	}
	return strings.Join(lines, "\n")
}

// ---------------------------------------------------------------------------------------
// statistics

type stats struct {
	ID, Name    string
	Evaluations int
	Discards    map[string]int
	Classes     map[string]int
	NonTrivial  int
	hashes      map[uint64]struct{}
	Samples     []any
	Failed      bool
	FailFile    string
	FailMsg     string
	Exhaustive  bool
	Note        string
	sampleAt    map[int]bool
	first       any
}

func outDir() string {
	d := os.Getenv("VERIF_OUT")
	if d == "" {
		d = filepath.Join(os.TempDir(), "verif-out-default")
	}
	_ = os.MkdirAll(d, 0o755)
	return d
}

func shardName() string {
	s := os.Getenv("VERIF_SHARD")
	if s == "" {
		s = "0"
	}
	return s
}

func tier() string {
	if os.Getenv("VERIF_TIER") == "thorough" {
		return "thorough"
	}
	return "quick"
}

func envInt(name string, def int) int {
	if s := os.Getenv(name); s != "" {
		if n, err := strconv.Atoi(s); err == nil {
			return n
		}
	}
	return def
}

func newStats(id, name string) *stats {
	return &stats{ID: id, Name: name, Discards: map[string]int{}, Classes: map[string]int{},
		hashes:   map[uint64]struct{}{},
		sampleAt: map[int]bool{3: true, 40: true, 400: true, 4000: true}}
}

func hashCase(name string, raw []byte) uint64 {
	h := fnv.New64a()
	h.Write([]byte(name))
	h.Write([]byte{0})
	h.Write(raw)
	return h.Sum64()
}

func (s *stats) record(raw []byte, v Verdict, render func() any) {
	s.Evaluations++
	if s.Evaluations == 1 {
		s.first = render()
	}
	if v.Discard != "" {
		s.Discards[v.Discard]++
		return
	}
	for _, c := range v.Classes {
		s.Classes[c]++
	}
	if v.NonTrivial {
		s.NonTrivial++
		h := hashCase(s.Name, raw)
		_, seen := s.hashes[h]
		s.hashes[h] = struct{}{}
		if !seen && (len(s.hashes) <= 2 || s.sampleAt[len(s.hashes)]) && len(s.Samples) < 5 {
			s.Samples = append(s.Samples, render())
		}
	}
}

func (s *stats) flush() {
	if len(s.Samples) == 0 && s.first != nil {
		s.Samples = []any{s.first}
	}
	base := filepath.Join(outDir(), fmt.Sprintf("stats-%s-%s-%s", s.ID, s.Name, shardName()))
	type out struct {
		ID          string         `json:"id"`
		Name        string         `json:"name"`
		Shard       string         `json:"shard"`
		Evaluations int            `json:"evaluations"`
		NonTrivial  int            `json:"nontrivial"`
		Distinct    int            `json:"distinct_nontrivial"`
		Discards    map[string]int `json:"discards"`
		Classes     map[string]int `json:"classes"`
		Samples     []any          `json:"samples"`
		Failed      bool           `json:"failed"`
		FailFile    string         `json:"fail_file,omitempty"`
		FailMsg     string         `json:"fail_msg,omitempty"`
		Exhaustive  bool           `json:"exhaustive,omitempty"`
		Note        string         `json:"note,omitempty"`
	}
	o := out{s.ID, s.Name, shardName(), s.Evaluations, s.NonTrivial, len(s.hashes), s.Discards, s.Classes,
		s.Samples, s.Failed, s.FailFile, s.FailMsg, s.Exhaustive, s.Note}
	b, _ := json.MarshalIndent(o, "", " ")
	_ = os.WriteFile(base+".json", b, 0o644)
	hs := make([]uint64, 0, len(s.hashes))
	for h := range s.hashes {
		hs = append(hs, h)
	}
	sort.Slice(hs, func(i, j int) bool { return hs[i] < hs[j] })
	buf := make([]byte, 8*len(hs))
	for i, h := range hs {
		binary.LittleEndian.PutUint64(buf[8*i:], h)
	}
	_ = os.WriteFile(base+".hashes", buf, 0o644)
}

func writeFail(id, name string, raw []byte, msg string) string {
	path := filepath.Join(outDir(), fmt.Sprintf("fail-%s-%s-%s.json", id, name, shardName()))
	b, _ := json.MarshalIndent(replayFile{Property: id, Check: name, Fail: msg, Case: raw}, "", " ")
	_ = os.WriteFile(path, b, 0o644)
	return path
}

func writeCapture(id, name string, raw []byte) {
	path := filepath.Join(outDir(), fmt.Sprintf("capture-%s-%s-%s.json", id, name, shardName()))
	b, _ := json.Marshal(replayFile{Property: id, Check: name, Fail: "process died or hung while deciding this case", Case: raw})
	_ = os.WriteFile(path, b, 0o644)
}

var captureMode = os.Getenv("VERIF_CAPTURE") == "1"

// ---------------------------------------------------------------------------------------
// drivers

// Check drives a sub-check with rapid. The number of cases is -rapid.checks.
func Check[C any](t *testing.T, p Prop[C]) {
	t.Helper()
	st := newStats(p.ID, p.Name)
	var lastFail *C
	defer st.flush()
	defer func() { // rapid ends a failing test with FailNow: the structural minimisation runs on the way out
		if !st.Failed || lastFail == nil || p.Minimize == nil || os.Getenv("VERIF_NO_MINIMIZE") != "" {
			return
		}
		prefix := failKind(st.FailMsg)
		deadline := time.Now().Add(45 * time.Second)
		small := p.Minimize(*lastFail, func(c C) bool {
			if time.Now().After(deadline) {
				return false
			}
			v := safeRun(p.Run, c)
			return v.Fail != "" && failKind(v.Fail) == prefix
		})
		if v := safeRun(p.Run, small); v.Fail != "" {
			if raw, err := json.Marshal(small); err == nil {
				st.FailMsg = v.Fail
				st.FailFile = writeFail(p.ID, p.Name, raw, v.Fail)
			}
		}
	}()
	render := p.Render
	if render == nil {
		render = func(c C) any { return c }
	}
	rapid.Check(t, func(rt *rapid.T) {
		c := p.Gen(rt)
		raw, err := json.Marshal(c)
		if err != nil {
			panic("case is not serialisable: " + err.Error())
		}
		if captureMode {
			writeCapture(p.ID, p.Name, raw)
		}
		v := safeRun(p.Run, c)
		if !st.Failed { // generation phase only; shrink re-runs are not counted
			st.record(raw, v, func() any { return render(c) })
		}
		if v.Fail != "" {
			st.Failed = true
			st.FailMsg = v.Fail
			st.FailFile = writeFail(p.ID, p.Name, raw, v.Fail)
			cc := c
			lastFail = &cc
			rt.Fatalf("%s/%s: %s", p.ID, p.Name, v.Fail)
		}
	})
}

// failKind is the part of a failure message that identifies the kind of failure (up to the first colon or newline).
func failKind(msg string) string {
	if i := strings.IndexAny(msg, ":\n"); i >= 0 {
		msg = msg[:i]
	}
	if len(msg) > 60 {
		msg = msg[:60]
	}
	return msg
}

// Enumerator feeds cases to Enumerate; it returns false when asked to stop.
type Enumerator[C any] func(yield func(C) bool)

// Enumerate drives a sub-check over an explicitly enumerated (usually exhaustive) space.
func Enumerate[C any](t *testing.T, p Prop[C], exhaustive bool, note string, each Enumerator[C]) {
	t.Helper()
	st := newStats(p.ID, p.Name)
	st.Exhaustive = exhaustive
	st.Note = note
	defer st.flush()
	render := p.Render
	if render == nil {
		render = func(c C) any { return c }
	}
	each(func(c C) bool {
		raw, err := json.Marshal(c)
		if err != nil {
			panic("case is not serialisable: " + err.Error())
		}
		if captureMode {
			writeCapture(p.ID, p.Name, raw)
		}
		v := safeRun(p.Run, c)
		st.record(raw, v, func() any { return render(c) })
		if v.Fail != "" {
			st.Failed = true
			st.FailMsg = v.Fail
			st.FailFile = writeFail(p.ID, p.Name, raw, v.Fail)
			t.Errorf("%s/%s: %s", p.ID, p.Name, v.Fail)
			return false
		}
		return true
	})
}

// DecideFuzz is called from native fuzz targets: it decides one case and reports like Check.
// Statistics of a native campaign are taken from the fuzzer's own output by the driver.
func DecideFuzz[C any](t *testing.T, p Prop[C], c C) {
	t.Helper()
	raw, _ := json.Marshal(c)
	v := safeRun(p.Run, c)
	if v.Fail != "" {
		writeFail(p.ID, p.Name, raw, v.Fail)
		t.Fatalf("%s/%s: %s", p.ID, p.Name, v.Fail)
	}
}

// TestReplay decides the cases stored in the files listed in VERIF_REPLAY (':'-separated).
func TestReplay(t *testing.T) {
	list := os.Getenv("VERIF_REPLAY")
	if list == "" {
		t.Skip("VERIF_REPLAY not set")
	}
	for _, path := range strings.Split(list, ":") {
		if path == "" {
			continue
		}
		b, err := os.ReadFile(path)
		if err != nil {
			fmt.Printf("REPLAY-RESULT status=unreadable path=%s msg=%q\n", path, err.Error())
			t.Fail()
			continue
		}
		var rf replayFile
		if err := json.Unmarshal(b, &rf); err != nil {
			fmt.Printf("REPLAY-RESULT status=unreadable path=%s msg=%q\n", path, err.Error())
			t.Fail()
			continue
		}
		run, ok := replayers[rf.Property+"/"+rf.Check]
		if !ok {
			fmt.Printf("REPLAY-RESULT status=unreadable path=%s msg=%q\n", path, "unknown sub-check "+rf.Property+"/"+rf.Check)
			t.Fail()
			continue
		}
		if captureMode {
			writeCapture(rf.Property, rf.Check, rf.Case)
		}
		v, err := run(rf.Case)
		switch {
		case err != nil:
			fmt.Printf("REPLAY-RESULT status=unreadable path=%s msg=%q\n", path, err.Error())
			t.Fail()
		case v.Fail != "":
			fmt.Printf("REPLAY-RESULT status=fail property=%s check=%s path=%s msg=%q\n", rf.Property, rf.Check, path, firstLine(v.Fail))
			t.Fail()
		case v.Discard != "":
			fmt.Printf("REPLAY-RESULT status=discard property=%s check=%s path=%s msg=%q\n", rf.Property, rf.Check, path, v.Discard)
		default:
			fmt.Printf("REPLAY-RESULT status=pass property=%s check=%s path=%s\n", rf.Property, rf.Check, path)
		}
	}
}

func firstLine(s string) string {
	if i := strings.IndexByte(s, '\n'); i >= 0 {
		s = s[:i]
	}
	if len(s) > 400 {
		s = s[:400] + "..."
	}
	return s
}

func TestMain(m *testing.M) {
	// A runaway recursion in the code under test should die quickly rather than eat 1 GB.
	debug.SetMaxStack(256 << 20)
	os.Exit(m.Run())
}

// TestCrasherToReplay converts a native-fuzz crasher file (one string argument) into a replay file.
func TestCrasherToReplay(t *testing.T) {
	src, dst, prop := os.Getenv("VERIF_CRASHER"), os.Getenv("VERIF_CRASHER_DST"), os.Getenv("VERIF_CRASHER_PROP")
	if src == "" {
		t.Skip("VERIF_CRASHER not set")
	}
	b, err := os.ReadFile(src)
	if err != nil {
		t.Fatal(err)
	}
	lines := strings.Split(strings.TrimSpace(string(b)), "\n")
	if len(lines) < 2 {
		t.Fatalf("unexpected crasher format in %s", src)
	}
	arg := strings.TrimSpace(lines[1])
	for _, pre := range []string{"string(", "[]byte("} {
		if strings.HasPrefix(arg, pre) && strings.HasSuffix(arg, ")") {
			arg = arg[len(pre) : len(arg)-1]
		}
	}
	s, err := strconv.Unquote(arg)
	if err != nil {
		t.Fatalf("cannot unquote %q: %v", arg, err)
	}
	raw, _ := json.Marshal(map[string]string{"input": s, "kind": "fuzz"})
	parts := strings.SplitN(prop, "/", 2)
	out, _ := json.MarshalIndent(replayFile{Property: parts[0], Check: parts[1], Fail: "native fuzzing crasher " + filepath.Base(src), Case: raw}, "", " ")
	if err := os.WriteFile(dst, out, 0o644); err != nil {
		t.Fatal(err)
	}
}

// bstr is a string that survives JSON byte-exactly (invalid UTF-8 is stored as base64).
type bstr string

func (b bstr) MarshalJSON() ([]byte, error) {
	if utf8.ValidString(string(b)) {
		return json.Marshal(string(b))
	}
	return json.Marshal(map[string]string{"b64": base64.StdEncoding.EncodeToString([]byte(b))})
}

func (b *bstr) UnmarshalJSON(data []byte) error {
	var s string
	if err := json.Unmarshal(data, &s); err == nil {
		*b = bstr(s)
		return nil
	}
	var m map[string]string
	if err := json.Unmarshal(data, &m); err != nil {
		return err
	}
	raw, err := base64.StdEncoding.DecodeString(m["b64"])
	if err != nil {
		return err
	}
	*b = bstr(raw)
	return nil
}

func bstrs(in []string) []bstr {
	out := make([]bstr, len(in))
	for i, s := range in {
		out[i] = bstr(s)
	}
	return out
}

func unbstrs(in []bstr) []string {
	out := make([]string, len(in))
	for i, s := range in {
		out[i] = string(s)
	}
	return out
}

// byte-exact JSON forms of the text-carrying cases

func (c textCase) MarshalJSON() ([]byte, error) {
	return json.Marshal(struct {
		Input bstr   `json:"input"`
		Kind  string `json:"kind,omitempty"`
	}{bstr(c.Input), c.Kind})
}

func (c *textCase) UnmarshalJSON(data []byte) error {
	var s struct {
		Input bstr   `json:"input"`
		Kind  string `json:"kind,omitempty"`
	}
	if err := json.Unmarshal(data, &s); err != nil {
		return err
	}
	c.Input, c.Kind = string(s.Input), s.Kind
	return nil
}

func (c c14Case) MarshalJSON() ([]byte, error) {
	return json.Marshal(struct {
		History []bstr `json:"history"`
		Probe   bstr   `json:"probe"`
	}{bstrs(c.History), bstr(c.Probe)})
}

func (c *c14Case) UnmarshalJSON(data []byte) error {
	var s struct {
		History []bstr `json:"history"`
		Probe   bstr   `json:"probe"`
	}
	if err := json.Unmarshal(data, &s); err != nil {
		return err
	}
	c.History, c.Probe = unbstrs(s.History), string(s.Probe)
	return nil
}

type c05CaseJSON struct {
	Pieces  []bstr `json:"pieces"`
	Input   bstr   `json:"input,omitempty"`
	Seed    bstr   `json:"seed"`
	Kind    string `json:"kind,omitempty"`
	Expect  string `json:"expect,omitempty"`
	Readers []int  `json:"readers,omitempty"`
}

func (c c05Case) MarshalJSON() ([]byte, error) {
	j := c05CaseJSON{Input: bstr(c.Input), Seed: bstr(c.Seed), Kind: c.Kind, Expect: c.Expect, Readers: c.Readers}
	if c.Pieces != nil {
		j.Pieces = bstrs(c.Pieces)
	}
	return json.Marshal(j)
}

func (c *c05Case) UnmarshalJSON(data []byte) error {
	var j c05CaseJSON
	if err := json.Unmarshal(data, &j); err != nil {
		return err
	}
	*c = c05Case{Input: string(j.Input), Seed: string(j.Seed), Kind: j.Kind, Expect: j.Expect, Readers: j.Readers}
	if j.Pieces != nil {
		c.Pieces = unbstrs(j.Pieces)
	}
	return nil
}

// DriveFuzz drives a rapid generator with Go's native coverage-guided fuzzer (rapid.MakeFuzz turns the fuzzer's bytes
// into the generator's random stream): the search over generator decisions is guided by coverage of the code under
// test. A failing case is written as a replay file like everywhere else.
func DriveFuzz[C any](f *testing.F, p Prop[C]) {
	f.Add([]byte{})
	f.Add([]byte{1, 2, 3, 4, 5, 6, 7, 8, 9, 10, 11, 12, 13, 14, 15, 16})
	f.Fuzz(rapid.MakeFuzz(func(rt *rapid.T) {
		c := p.Gen(rt)
		raw, err := json.Marshal(c)
		if err != nil {
			return
		}
		v := safeRun(p.Run, c)
		if v.Fail != "" {
			writeFail(p.ID, p.Name, raw, v.Fail)
			rt.Fatalf("%s/%s: %s", p.ID, p.Name, v.Fail)
		}
	}))
}
