//go:build verif

package harness

// C06 — running a valid script never panics: script-level faults surface as errors.

import (
	"fmt"
	"math"
	"strings"
	"testing"

	"github.com/remieven/ysgo"
	"github.com/remieven/ysgo/variable"
	"pgregory.net/rapid"
)

type fault struct {
	kind string
	e    *Expr
}

// faultyExprs: expressions whose evaluation must fail, by fault kind. Variables $nan, $inf, $ninf, $big, $negbig
// are supplied through the storer.
func faultCatalogue() []fault {
	return []fault{
		{"ill-typed", bin("+", num("1"), str("a"))},
		{"ill-typed", not(num("1"))},
		{"ill-typed", neg(str("a"))},
		{"ill-typed", bin("<", boolean(true), boolean(false))},
		{"ill-typed", bin("and", num("1"), boolean(true))},
		{"ill-typed", bin("==", num("1"), str("1"))},
		{"unknown-variable", varRef("nope")},
		{"unknown-variable", bin("+", varRef("nope"), num("1"))},
		{"unknown-function", call("nosuch", num("1"))},
		{"arg-count", call("pt")},
		{"arg-count", call("dice")},
		{"arg-count", call("dice", num("1"), num("2"))},
		{"arg-count", call("visited")},
		{"arg-count", call("round", num("1"), num("2"))},
		{"arg-count", call("string")},
		{"arg-type", call("dice", str("a"))},
		{"arg-type", call("visited", num("1"))},
		{"arg-type", call("round", boolean(true))},
		{"arg-type", call("number", str("abc"))},
		{"arg-type", call("bool", str("maybe"))},
		{"null", &Expr{K: "null"}},
		{"null", bin("+", &Expr{K: "null"}, num("1"))},
		{"null", call("pn", str("x"), &Expr{K: "null"})},
		{"null", bin("==", &Expr{K: "null"}, &Expr{K: "null"})},
		{"null", not(&Expr{K: "null"})},
		{"no-result-function", call("noret")},
		{"no-result-function", bin("+", call("noret"), num("1"))},
		{"no-result-function", call("string", call("noret"))},
		{"no-result-function", call("pn", str("x"), call("noret"))},
		{"dice-domain", call("dice", num("0"))},
		{"dice-domain", call("dice", neg(num("3")))},
		{"dice-domain", call("dice", varRef("nan"))},
		{"dice-domain", call("dice", varRef("inf"))},
		{"dice-domain", call("dice", varRef("ninf"))},
		{"dice-domain", call("dice", varRef("big"))},
		{"dice-domain", call("dice", num("9223372036854775808"))},
		{"range-domain", call("random_range", num("5"), num("1"))},
		{"range-domain", call("random_range", varRef("nan"), num("1"))},
		{"range-domain", call("random_range", num("1"), varRef("inf"))},
		{"range-domain", call("random_range", varRef("negbig"), varRef("big"))},
		{"range-domain", call("random_range", neg(num("9000000000000000000")), num("9000000000000000000"))},
		{"range-domain", call("random_range", num("0"), num("9223372036854775807"))},
	}
}

var faultVars = map[string]mval{"nan": numVal(math.NaN()), "inf": numVal(math.Inf(1)), "ninf": numVal(math.Inf(-1)), "big": numVal(1e300), "negbig": numVal(-1e300)}

// faultyStmt builds a statement that fails when executed: a faulty expression in some context, or a faulty statement.
func faultyStmt(g *scriptGen, depth int) *Stmt {
	t := g.t
	cat := faultCatalogue()
	f := cat[rapid.IntRange(0, len(cat)-1).Draw(t, "fault")]
	g.lineID++
	id := fmt.Sprintf("L%d", g.lineID)
	note := func(ctx string) string { return ctx + "/" + f.kind }
	switch rapid.IntRange(0, 19).Draw(t, "context") {
	case 18:
		// text that is not valid markup (an unterminated marker): rendering the line fails
		return &Stmt{K: "line", Text: []TextPart{{S: id + " " + brokenMarkup}}, Note: "statement/broken-markup-line"}
	case 19:
		return &Stmt{K: "opts", Opts: []*Opt{{Text: []TextPart{{S: id}}}, {Text: []TextPart{{S: id + "b " + brokenMarkup}}, Body: []*Stmt{{K: "line", Text: []TextPart{{S: id + "x"}}}}}}, Note: "statement/broken-markup-option"}
	case 0, 1:
		return &Stmt{K: "line", Text: []TextPart{{S: id + " "}, {E: f.e}, {S: " tail"}}, Note: note("line-interpolation")}
	case 2:
		return &Stmt{K: "opts", Opts: []*Opt{{Text: []TextPart{{S: id}}}, {Text: []TextPart{{S: id + "b "}, {E: f.e}}}}, Note: note("option-text")}
	case 3:
		return &Stmt{K: "opts", Opts: []*Opt{{Text: []TextPart{{S: id}}, Cond: f.e, Body: []*Stmt{{K: "line", Text: []TextPart{{S: id + "body"}}}}}}, Note: note("option-condition")}
	case 4, 5:
		return &Stmt{K: "set", Var: "fresh" + id, Op: "=", E: f.e, Note: note("set-rhs")}
	case 6:
		return &Stmt{K: "if", Clauses: []*Clause{{Cond: f.e, Body: []*Stmt{{K: "line", Text: []TextPart{{S: id}}}}}}, Note: note("if-condition")}
	case 7:
		return &Stmt{K: "if", Clauses: []*Clause{{Cond: boolean(false)}, {Cond: f.e, Body: []*Stmt{{K: "line", Text: []TextPart{{S: id}}}}}}, HasElse: true, Note: note("elseif-condition")}
	case 8:
		return &Stmt{K: "jumpx", E: f.e, Note: note("jump-expression")}
	case 9:
		return &Stmt{K: "call", Fn: "pn", Args: []*Expr{str("x"), f.e}, Note: note("call-argument")}
	case 10:
		// the command name may itself be a word that is read as a number or a boolean (two faults in one statement)
		name := rapid.SampledFrom([]string{"c0", "c0", "c1", "3", "true", "-1.5", "nosuchcmd"}).Draw(t, "cmdname")
		return &Stmt{K: "cmd", Words: []TextPart{{S: name}, {S: "w"}, {E: f.e}}, Note: note("command-argument")}
	case 11:
		return rapid.SampledFrom([]*Stmt{
			{K: "jump", Target: "Nowhere", Note: "statement/unknown-node"},
			{K: "jumpx", E: num("1"), Note: "statement/jump-to-number"},
			{K: "jumpx", E: str("No Such Node"), Note: "statement/unknown-node"},
			// names that are long in bytes but not in characters, and the other way round (messages that abbreviate or pad them)
			{K: "jumpx", E: str(strings.Repeat("日本語", 10)), Note: "statement/unknown-node-long"},
			{K: "jumpx", E: str(strings.Repeat("щ", 45)), Note: "statement/unknown-node-long"},
			{K: "jumpx", E: str(strings.Repeat("n", 300)), Note: "statement/unknown-node-long"},
			{K: "jumpx", E: str(strings.Repeat("é", 79) + "x"), Note: "statement/unknown-node-long"},
			{K: "jumpx", E: str(""), Note: "statement/unknown-node-empty"},
			{K: "jump", Target: strings.Repeat("Ж", 41), Note: "statement/unknown-node-long"},
		}).Draw(t, "stmtfault")
	case 12:
		return rapid.SampledFrom([]*Stmt{
			{K: "cmd", Words: []TextPart{{S: "nosuchcmd"}, {S: "a"}}, Note: "statement/unknown-command"},
			{K: "cmd", Words: []TextPart{{E: num("1")}, {S: "a"}}, Note: "statement/command-name-not-a-string"},
		}).Draw(t, "stmtfault")
	case 13:
		return rapid.SampledFrom([]*Stmt{
			{K: "set", Var: "f1", Op: "=", E: num("3"), Note: "statement/type-change"},
			{K: "set", Var: "k1", Op: "=", E: str("s"), Note: "statement/type-change"},
			{K: "set", Var: "zz" + id, Op: "+=", E: num("1"), Note: "statement/compound-on-unknown"},
			{K: "set", Var: "f1", Op: "+=", E: boolean(true), Note: "statement/compound-on-boolean"},
			{K: "set", Var: "dest", Op: "-=", E: str("x"), Note: "statement/minus-on-string"},
			{K: "declare", Var: "f1", Op: "=", E: num("1"), Note: "statement/type-change"},
		}).Draw(t, "stmtfault")
	case 14:
		return rapid.SampledFrom([]*Stmt{
			{K: "call", Fn: "nosuch", Note: "statement/unknown-function"},
			{K: "call", Fn: strings.Repeat("fonction_inconnue_é", 6), Note: "statement/unknown-function-long"},
			{K: "set", Var: "fresh" + id, Op: "=", E: varRef(strings.Repeat("変数", 25)), Note: "statement/unknown-variable-long"},
			{K: "cmd", Words: []TextPart{{S: strings.Repeat("команда", 13)}, {S: "a"}}, Note: "statement/unknown-command-long"},
			{K: "call", Fn: "pt", Note: "statement/arg-count"},
			{K: "call", Fn: "pt", Args: []*Expr{num("1")}, Note: "statement/arg-type"},
			{K: "call", Fn: "dice", Args: []*Expr{num("0")}, Note: "statement/dice-domain"},
		}).Draw(t, "stmtfault")
	case 15:
		return rapid.SampledFrom([]*Stmt{
			{K: "if", Clauses: []*Clause{{Cond: num("1")}}, Note: "statement/non-boolean-condition"},
			{K: "if", Clauses: []*Clause{{Cond: str("a")}}, HasElse: true, Note: "statement/non-boolean-condition"},
			{K: "opts", Opts: []*Opt{{Text: []TextPart{{S: id}}, Cond: num("1")}}, Note: "statement/non-boolean-condition"},
		}).Draw(t, "stmtfault")
	case 16:
		return &Stmt{K: "opts", Opts: []*Opt{{Text: []TextPart{{S: id + " "}, {E: f.e}}, Body: []*Stmt{{K: "line", Text: []TextPart{{S: id + "x"}}}}}, {Text: []TextPart{{S: id + "c"}}}}, Note: note("first-option-text")}
	default:
		return &Stmt{K: "set", Var: "k1", Op: "+=", E: f.e, Note: note("compound-set-rhs")}
	}
}

func runC06(c flowCase) Verdict {
	srcs := renderCanonical(c.Script)
	script := strings.Join(srcs, "\n-- next reader --\n")
	vars := map[string]mval{}
	for k, v := range c.Vars {
		vars[k] = v
	}
	for k, v := range faultVars {
		vars[k] = v
	}
	m := newInterp(c.Script, vars, c.Choices, flowMaxEv)
	m.stopAtErr = true
	m.run()
	if m.diverged {
		return Verdict{Discard: "script runs more than 300 statements without yielding"}
	}
	if m.sawRandom {
		return Verdict{Discard: "a random built-in succeeded (values not modelled here)"}
	}
	h, err := newHost(srcs, "abc", vars)
	if err != nil {
		return failf("generated script does not load: %v\n%s", err, script)
	}
	h.drive(c.Choices, nil, flowMaxEv, true)
	for _, ev := range h.trace {
		if ev.K == "panic" {
			return failf("Next panicked: %s\nscript:\n%s\nchoices %v\nexpected trace:\n%sactual trace:\n%s", ev.Text, script, c.Choices, showTrace(m.trace), showTrace(h.trace))
		}
	}
	if d := diffTraces(m.trace, h.trace); d != "" {
		return failf("trace up to the first fault differs: %s\nscript:\n%s\nchoices %v\nexpected trace:\n%sactual trace:\n%s", d, script, c.Choices, showTrace(m.trace), showTrace(h.trace))
	}
	reached := m.stats.errs > 0
	after := 0
	if reached {
		// the runner must remain usable: further calls return something and never panic - whatever argument is passed
		// while no choice is pending (documented as ignored), which must not influence the continuation either
		twin, err := newHost(srcs, "abc", vars)
		if err != nil {
			return failf("generated script does not load the second time: %v\n%s", err, script)
		}
		twin.drive(c.Choices, nil, flowMaxEv, true)
		nch, nct := 0, 0
		for i := 0; i < 12; i++ {
			arg, argTwin := hostileArgs[(i+len(c.Choices))%len(hostileArgs)], 0
			if h.lastOpt > 0 {
				arg = 0
				if len(c.Choices) > 0 {
					arg = c.Choices[nch%len(c.Choices)]
				}
				nch++
				arg = ((arg % h.lastOpt) + h.lastOpt) % h.lastOpt
			}
			if twin.lastOpt > 0 {
				if len(c.Choices) > 0 {
					argTwin = c.Choices[nct%len(c.Choices)]
				}
				nct++
				argTwin = ((argTwin % twin.lastOpt) + twin.lastOpt) % twin.lastOpt
			}
			ev := h.step(arg)
			evTwin := twin.step(argTwin)
			after++
			if ev.K == "panic" {
				return failf("Next(%d) panicked on call %d after an error: %s\nscript:\n%s\nchoices %v\ntrace:\n%s", arg, i+1, ev.Text, script, c.Choices, showTrace(h.trace))
			}
			if evTwin.K == "panic" {
				return failf("Next(%d) panicked on call %d after an error: %s\nscript:\n%s\nchoices %v\ntrace:\n%s", argTwin, i+1, evTwin.Text, script, c.Choices, showTrace(twin.trace))
			}
			if !sameEv(ev, evTwin) {
				return failf("after an error the continuation depends on the argument of Next although no choice was pending: call %d with %d gave %s, with %d gave %s\nscript:\n%s\nchoices %v\ntrace:\n%s",
					i+1, arg, ev.String(), argTwin, evTwin.String(), script, c.Choices, showTrace(h.trace))
			}
			if ev.K == "end" {
				break
			}
		}
	}
	cls := []string{}
	if reached {
		cls = append(cls, "fault="+m.errNote)
	} else {
		cls = append(cls, "no-fault-reached")
	}
	return Verdict{NonTrivial: reached, Classes: cls}
}

// brokenMarkup makes the text of a line or option unparsable as markup (an unterminated marker).
const brokenMarkup = "[broken"

// hostileArgs are passed to Next when no choice is pending.
var hostileArgs = []int{5, -1, 0, 1 << 40, 2, math.MinInt64, 1}

var faultScriptOpts = scriptOpts{maxNodes: 4, maxDepth: 3, maxBody: 4, forwardOnly: true, tracking: true, extraStmt: func(g *scriptGen, depth int) *Stmt {
	if rapid.IntRange(0, 2).Draw(g.t, "inject") != 0 {
		return faultyStmt(g, depth)
	}
	return nil
}}

var c06Faults = Register(Prop[flowCase]{
	ID: "C06", Name: "faults",
	Gen: func(t *rapid.T) flowCase {
		c := genFlowCase(t, faultScriptOpts)
		c.Junk = nil
		if rapid.IntRange(0, 2).Draw(t, "loop") == 0 {
			// the whole script in a loop: the calls after the first error come back to statements that failed before.
			// Every node starts with a line, so that no lap can run without yielding.
			nodes := c.Script.allNodes()
			for _, n := range nodes {
				if len(n.Body) == 0 || n.Body[0].K != "line" || len(n.Body[0].Text) != 1 || n.Body[0].Text[0].E != nil {
					n.Body = append([]*Stmt{{K: "line", Text: []TextPart{{S: "entering " + n.Title}}}}, n.Body...)
				}
			}
			last := nodes[len(nodes)-1]
			last.Body = append(last.Body, &Stmt{K: "jump", Target: nodes[0].Title})
		}
		return c
	},
	Run: runC06, Render: renderFlow, Minimize: minimizeFlow,
})

func TestC06Faults(t *testing.T) { Check(t, c06Faults) }

// Exhaustive: every fault of the catalogue in every context, as the first statement of a small script and
// inside a nested option body.
var c06Matrix = Register(Prop[flowCase]{ID: "C06", Name: "fault-matrix", Run: runC06, Render: renderFlow})

func TestC06FaultMatrix(t *testing.T) {
	Enumerate(t, c06Matrix, true, "every catalogue fault x every expression context (and lines and options whose text is not valid markup), at top level, inside a chosen option body and in a node that jumps back to itself, followed by ordinary statements",
		func(yield func(flowCase) bool) {
			cat := faultCatalogue()
			line := func(s string) *Stmt { return &Stmt{K: "line", Text: []TextPart{{S: s}}} }
			// each faulty statement at top level, inside a chosen option body, and in a node that jumps back to itself (the
			// calls made after the first error come back to the very same statement again and again)
			shapes := func(st *Stmt) bool {
				for _, shape := range []string{"flat", "nested", "looping"} {
					body := []*Stmt{line("before"), st, line("after"), {K: "jump", Target: "B"}}
					switch shape {
					case "nested":
						body = []*Stmt{{K: "opts", Opts: []*Opt{{Text: []TextPart{{S: "enter"}}, Body: []*Stmt{line("inside"), st, line("still inside")}}}}, line("after"), {K: "jump", Target: "B"}}
					case "looping":
						body = []*Stmt{line("before"), st, line("after"), {K: "jump", Target: "A"}}
					}
					sc := &Script{Files: [][]*Node{{{Title: "A", Body: body}, {Title: "B", Body: []*Stmt{line("in B")}}}}}
					if !yield(flowCase{Script: sc, Vars: flowVars, Choices: []int{0}}) {
						return false
					}
				}
				return true
			}
			for _, f := range cat {
				contexts := map[string]*Stmt{
					"line-interpolation":   {K: "line", Text: []TextPart{{S: "X "}, {E: f.e}}},
					"option-text":          {K: "opts", Opts: []*Opt{{Text: []TextPart{{S: "o1"}}}, {Text: []TextPart{{S: "o2 "}, {E: f.e}}}}},
					"option-condition":     {K: "opts", Opts: []*Opt{{Text: []TextPart{{S: "o1"}}, Cond: f.e, Body: []*Stmt{line("in o1")}}}},
					"set-rhs":              {K: "set", Var: "fresh", Op: "=", E: f.e},
					"compound-set-rhs":     {K: "set", Var: "k1", Op: "*=", E: f.e},
					"if-condition":         {K: "if", Clauses: []*Clause{{Cond: f.e, Body: []*Stmt{line("in if")}}}},
					"elseif-condition":     {K: "if", Clauses: []*Clause{{Cond: boolean(false)}, {Cond: f.e}}, HasElse: true, Else: []*Stmt{line("in else")}},
					"jump-expression":      {K: "jumpx", E: f.e},
					"call-argument":        {K: "call", Fn: "ps", Args: []*Expr{str("x"), f.e}},
					"command-argument":     {K: "cmd", Words: []TextPart{{S: "c1"}, {E: f.e}, {S: "z"}}},
					"numeric-command-name": {K: "cmd", Words: []TextPart{{S: "3"}, {E: f.e}}},
					"boolean-command-name": {K: "cmd", Words: []TextPart{{S: "true"}, {S: "w"}, {E: f.e}}},
				}
				for name, st := range contexts {
					st.Note = name + "/" + f.kind
					if !shapes(st) {
						return
					}
				}
			}
			for name, st := range map[string]*Stmt{
				"broken-markup-line":   {K: "line", Text: []TextPart{{S: "X " + brokenMarkup}}},
				"broken-markup-option": {K: "opts", Opts: []*Opt{{Text: []TextPart{{S: "o1"}}}, {Text: []TextPart{{S: "o2 " + brokenMarkup}}}}},
			} {
				st.Note = "statement/" + name
				if !shapes(st) {
					return
				}
			}
		})
}

// ---------------------------------------------------------------------------------------
// domain of the random built-ins over arbitrary numbers

type c06RandomCase struct {
	Fn   string `json:"fn"`
	Args []mval `json:"args"`
}

func runC06Random(c c06RandomCase) Verdict {
	vars := map[string]mval{}
	names := []string{"x", "y"}
	argSrc := make([]string, len(c.Args))
	for i := range c.Args {
		c.Args[i].fix()
		vars[names[i]] = c.Args[i]
		argSrc[i] = "$" + names[i]
	}
	src := "title: Start\n---\n{cap(" + c.Fn + "(" + strings.Join(argSrc, ", ") + "))}\nafter\n===\n"
	storer := variable.NewInMemoryStorer()
	loadStore(storer, vars)
	dr, err := ysgo.NewDialogueRunner(storer, "seed1", strings.NewReader(src))
	if err != nil {
		return failf("script does not load: %v", err)
	}
	var captured []mval
	dr.AddFunction("cap", func(args []*variable.Value) (*variable.Value, error) {
		captured = append(captured, toMvals(args)...)
		return variable.NewNumber(0), nil
	})
	var nerr error
	var p any
	func() {
		defer func() { p = recover() }()
		_, nerr = dr.Next(0)
	}()
	desc := fmt.Sprintf("%s(%v)", c.Fn, c.Args)
	if p != nil {
		return failf("%s panicked: %v", desc, p)
	}
	must := randomDomainError(c.Fn, c.Args)
	if must != nil && nerr == nil {
		return failf("%s must be an error (%v) but returned %v", desc, must, captured)
	}
	cls := []string{"fn=" + c.Fn}
	if nerr != nil {
		cls = append(cls, "error")
	} else {
		if len(captured) != 1 || captured[0].T != 'n' {
			return failf("%s: captured %v", desc, captured)
		}
		v := captured[0].N
		if v != math.Trunc(v) {
			return failf("%s = %v is not an integer", desc, v)
		}
		lo, hi := 1.0, 0.0
		if c.Fn == "dice" {
			hi = math.Ceil(c.Args[0].N)
		} else {
			lo, hi = math.Floor(c.Args[0].N), math.Ceil(c.Args[1].N)
		}
		if v < lo || v > hi {
			return failf("%s = %v is outside [%v, %v]", desc, v, lo, hi)
		}
		cls = append(cls, "value")
	}
	// the runner stays usable
	func() {
		defer func() { p = recover() }()
		_, _ = dr.Next(0)
	}()
	if p != nil {
		return failf("Next after %s panicked: %v", desc, p)
	}
	return Verdict{NonTrivial: must != nil || nerr == nil, Classes: cls}
}

func genBound(t *rapid.T) float64 {
	switch rapid.IntRange(0, 7).Draw(t, "bound") {
	case 0:
		return rapid.SampledFrom([]float64{0, 1, -1, 2, 0.5, 2.7, -0.5, math.NaN(), math.Inf(1), math.Inf(-1), 1e300, -1e300, 9223372036854775807, 9223372036854775808, -9223372036854775808,
			-9223372036854777856, 9223372036854774784, 4611686018427387904, 1 << 53, 1<<53 + 2, 1e18, -1e18, 9e18, -9e18, 5e-324}).Draw(t, "special")
	case 1, 2, 3:
		return float64(rapid.IntRange(-10, 100).Draw(t, "small"))
	case 4:
		return float64(rapid.Int64().Draw(t, "int64"))
	case 5:
		return float64(rapid.IntRange(-400, 400).Draw(t, "quarter")) / 4
	default:
		return rapid.Float64().Draw(t, "float")
	}
}

var c06Random = Register(Prop[c06RandomCase]{
	ID: "C06", Name: "random-domain",
	Gen: func(t *rapid.T) c06RandomCase {
		if rapid.Bool().Draw(t, "dice") {
			return c06RandomCase{Fn: "dice", Args: []mval{numVal(genBound(t))}}
		}
		return c06RandomCase{Fn: "random_range", Args: []mval{numVal(genBound(t)), numVal(genBound(t))}}
	},
	Run: runC06Random,
	Render: func(c c06RandomCase) any {
		parts := []string{}
		for _, a := range c.Args {
			a.fix()
			parts = append(parts, a.String())
		}
		return c.Fn + "(" + strings.Join(parts, ", ") + ")"
	},
})

func TestC06RandomDomain(t *testing.T) { Check(t, c06Random) }

// ---------------------------------------------------------------------------------------
// ill-typed expressions from the C02 generator: an error, never a panic

var c06Expr = Register(Prop[c02Case]{
	ID: "C06", Name: "ill-typed-expressions",
	Gen: func(t *rapid.T) c02Case {
		g := &exprGen{t: t, illRate: 4}
		want := rapid.SampledFrom([]byte{'n', 'b', 's'}).Draw(t, "type")
		return c02Case{E: g.gen(want, rapid.IntRange(1, 4).Draw(t, "depth")), Vars: genC02Vars(t)}
	},
	Run: func(c c02Case) Verdict {
		v := decideC02(c, true)
		v.NonTrivial = false
		for _, cl := range v.Classes {
			if cl == "ill-typed" {
				v.NonTrivial = true
			}
		}
		return v
	},
	Render: renderC02,
})

func TestC06IllTypedExpressions(t *testing.T) { Check(t, c06Expr) }

var c06ExprTable = Register(Prop[c02Case]{ID: "C06", Name: "operator-table", Run: func(c c02Case) Verdict { return decideC02(c, true) }, Render: renderC02})

func TestC06OperatorTable(t *testing.T) {
	Enumerate(t, c06ExprTable, true, "every binary operator x every ordered pair of operand types x representative operands; both unary operators on every type: an error or a value, never a panic",
		func(yield func(c02Case) bool) {
			for _, op := range binaryOps {
				for _, lt := range []byte{'n', 'b', 's'} {
					for _, rt := range []byte{'n', 'b', 's'} {
						for _, l := range representative(lt) {
							for _, r := range representative(rt) {
								if !yield(c02Case{E: bin(op, l, r), Vars: tableVars}) {
									return
								}
							}
						}
					}
				}
			}
			for _, ty := range []byte{'n', 'b', 's'} {
				for _, x := range representative(ty) {
					if !yield(c02Case{E: not(x), Vars: tableVars}) || !yield(c02Case{E: neg(x), Vars: tableVars}) {
						return
					}
				}
			}
		})
}

// ---------------------------------------------------------------------------------------
// values without any content: a host function or a host storer may hand out &variable.Value{} (no field set). What such a
// value means is not stated; that it never makes Next panic is.

type c06EmptyCase struct {
	Context string `json:"context"`
	Source  string `json:"source"` // function, storer
}

type emptyValueStorer struct{ *variable.InMemoryStorer }

func (s emptyValueStorer) GetValue(name string) (*variable.Value, bool) {
	if name == "void" {
		return &variable.Value{}, true
	}
	return s.InMemoryStorer.GetValue(name)
}

func runC06Empty(c c06EmptyCase) Verdict {
	e := "emptyval()"
	if c.Source == "storer" {
		e = "$void"
	}
	stmt := map[string]string{
		"set-new":          "<<set $fresh to " + e + ">>",
		"set-existing":     "<<set $k1 to " + e + ">>",
		"compound":         "<<set $k1 += " + e + ">>",
		"declare":          "<<declare $fresh2 = 1>>\n<<set $fresh2 to " + e + ">>",
		"line":             "shown {" + e + "} here",
		"if":               "<<if " + e + ">>\n    in if\n<<endif>>",
		"option-text":      "-> one {" + e + "}\n-> two",
		"option-condition": "-> one <<if " + e + ">>\n-> two",
		"jump":             "<<jump {" + e + "}>>",
		"command":          "<<c0 a {" + e + "}>>",
		"command-name":     "<<{" + e + "} a>>",
		"call-argument":    "<<call pn(\"x\", " + e + ")>>",
		"operand":          "<<set $k1 to 1 + " + e + ">>",
		"comparison":       "<<set $f1 to " + e + " == " + e + ">>",
		"not":              "<<set $f1 to not " + e + ">>",
		"builtin":          "{string(" + e + ")} {number(" + e + ")} {bool(" + e + ")}",
	}[c.Context]
	src := "title: A\n---\nbefore\n" + stmt + "\nafter {$k1}\n<<jump A>>\n===\n"
	storer := emptyValueStorer{variable.NewInMemoryStorer()}
	storer.SetNumberValue("k1", 1)
	storer.SetBooleanValue("f1", true)
	dr, err := ysgo.NewDialogueRunner(storer, "abc", strings.NewReader(src))
	if err != nil {
		return failf("script does not load: %v\n%s", err, src)
	}
	h := &host{dr: dr, storer: newRecStorer()}
	h.register()
	dr.AddFunction("emptyval", func([]*variable.Value) (*variable.Value, error) { return &variable.Value{}, nil })
	for i := 0; i < 10; i++ {
		arg := hostileArgs[i%len(hostileArgs)]
		if h.lastOpt > 0 {
			arg = i % h.lastOpt
		}
		if ev := h.step(arg); ev.K == "panic" {
			return failf("a value without content from a host %s, used as %s: call %d panicked: %s\nscript:\n%s\ntrace:\n%s", c.Source, c.Context, i+1, ev.Text, src, showTrace(h.trace))
		}
	}
	return Verdict{NonTrivial: true, Classes: []string{"source=" + c.Source}}
}

var c06Empty = Register(Prop[c06EmptyCase]{ID: "C06", Name: "values-without-content", Run: runC06Empty})

func TestC06ValuesWithoutContent(t *testing.T) {
	Enumerate(t, c06Empty, true, "a &variable.Value{} from a host function and from a host storer in 16 contexts (set of a new and of an existing variable, compound set, line, if, option text and condition, jump, command word and name, call argument, operand, comparison, not, conversion built-ins), two laps each",
		func(yield func(c06EmptyCase) bool) {
			for _, source := range []string{"function", "storer"} {
				for _, ctx := range []string{"set-new", "set-existing", "compound", "declare", "line", "if", "option-text", "option-condition", "jump", "command", "command-name", "call-argument", "operand", "comparison", "not", "builtin"} {
					if !yield(c06EmptyCase{Context: ctx, Source: source}) {
						return
					}
				}
			}
		})
}
