//go:build verif

package harness

// C07 — snapshots are self-contained checkpoints; restore resumes from node entry.

import (
	"fmt"
	"sort"
	"strings"
	"testing"

	"github.com/remieven/ysgo"
	"github.com/remieven/ysgo/variable"
	"pgregory.net/rapid"
)

type c07Case struct {
	Script   *Script         `json:"script"`
	Vars     map[string]mval `json:"vars"`
	Choices  []int           `json:"choices"`          // original run
	K        int             `json:"k"`                // number of Next calls of the original run before the snapshot is taken
	Receiver string          `json:"receiver"`         // fresh, steps, until-options, until-wait, until-end
	RSteps   int             `json:"rsteps"`           // for "steps"
	RChoices []int           `json:"rchoices"`         // choices driving the receiver into its state
	Cont     []int           `json:"cont"`             // choices after the restore
	Storer   string          `json:"storer,omitempty"` // "" = recording storer, "in-memory" = the library InMemoryStorer
	// HostVisited: the host registers its own visited() on every runner (answers true for everything): functions are not part
	// of a snapshot, a restore leaves them alone
	HostVisited bool `json:"host_visited,omitempty"`
}

// snapView is a comparable, self-contained form of a snapshot (nil maps read as empty).
type snapView struct {
	node   string
	vars   map[string]mval
	visits map[string]int
}

func viewSnapshot(s *ysgo.Snapshot) snapView {
	v := snapView{node: s.CurrentNode, vars: map[string]mval{}, visits: map[string]int{}}
	for k, val := range s.Variables {
		val := val
		v.vars[k] = toMval(&val)
	}
	for k, n := range s.VisitedNodes {
		if n != 0 {
			v.visits[k] = n
		}
	}
	return v
}

func (a snapView) diff(b snapView) string {
	if a.node != b.node {
		return fmt.Sprintf("current node %q vs %q", a.node, b.node)
	}
	if d := sameStore(a.vars, b.vars); d != "" {
		return "variables: " + d
	}
	if !sameCounts(a.visits, b.visits) {
		return fmt.Sprintf("visit counts %s vs %s", showCounts(a.visits), showCounts(b.visits))
	}
	return ""
}

func (a snapView) String() string {
	return fmt.Sprintf("{node %s, variables %s, visits %s}", a.node, showStore(a.vars), showCounts(a.visits))
}

func entryLog(h *host) []string {
	var out []string
	for _, l := range h.fnLog {
		if strings.HasPrefix(l, "enter(") {
			out = append(out, l)
		}
	}
	return out
}

// driveN makes n Next calls (or stops at the end) answering option groups from choices, starting at choice index *nchoice.
func driveN(h *host, n int, choices []int, nchoice *int) {
	for i := 0; i < n; i++ {
		arg := 0
		if h.lastOpt > 0 {
			if len(choices) > 0 {
				arg = choices[*nchoice%len(choices)]
			}
			*nchoice++
			arg = ((arg % h.lastOpt) + h.lastOpt) % h.lastOpt
		}
		ev := h.step(arg)
		if ev.K == "end" || ev.K == "panic" {
			return
		}
	}
}

const c07MaxEv = 40

func runC07(c c07Case) Verdict {
	srcs := renderCanonical(c.Script)
	script := strings.Join(srcs, "\n-- next reader --\n")
	// the scripts must be fault-free and must not diverge: ask the model
	m := newInterp(c.Script, c.Vars, c.Choices, flowMaxEv)
	m.run()
	if m.diverged || m.nonJumpErrs > 0 {
		return Verdict{Discard: "script diverges or has faults other than failing jumps"}
	}
	newH := func() *host {
		mk := newHost
		if c.Storer == "in-memory" {
			mk = newHostInMemory
		}
		h, err := mk(srcs, "abc", c.Vars)
		if err != nil {
			panic("generated script does not load: " + err.Error())
		}
		if c.HostVisited {
			h.dr.AddFunction("visited", func([]*variable.Value) (*variable.Value, error) { return variable.NewBoolean(true), nil })
		}
		return h
	}
	ctx := func() string {
		return fmt.Sprintf("\nscript:\n%s\noriginal choices %v, snapshot after %d Next calls, receiver %s (%d steps, choices %v), continuation choices %v", script, c.Choices, c.K, c.Receiver, c.RSteps, c.RChoices, c.Cont)
	}

	// ---- original run O, snapshot S after K calls
	o := newH()
	nco := 0
	driveN(o, c.K, c.Choices, &nco)
	for _, ev := range o.trace {
		if ev.K == "panic" {
			return Verdict{Discard: "original run panics (C06)"}
		}
	}
	snap := o.dr.Snapshot()
	if snap == nil {
		return failf("Snapshot() returned nil%s", ctx())
	}
	frozen := viewSnapshot(snap)
	// the values of a snapshot are the host's own: changing them through their pointers reaches neither another snapshot
	// taken at the same moment nor the runner (the change is undone afterwards: nothing may leak into later cases either)
	{
		scratch := o.dr.Snapshot()
		storeBefore := o.finalStore()
		undo := scribbleVariables(scratch.Variables)
		for k := range scratch.VisitedNodes {
			scratch.VisitedNodes[k] += 40
		}
		scratch.VisitedNodes["Added By The Host"] = 7
		for _, n := range c.Script.allNodes() {
			scratch.VisitedNodes[n.Title] += 3
		}
		d1 := frozen.diff(viewSnapshot(snap))
		d2 := sameStore(storeBefore, o.finalStore())
		if d1 == "" {
			d1 = frozen.diff(viewSnapshot(o.dr.Snapshot())) // (nor a snapshot taken now: the runner's own counts have not moved)
		}
		undo()
		if d1 != "" {
			return failf("changing the values of one snapshot through their pointers changed another snapshot taken at the same moment: %s%s", d1, ctx())
		}
		if d2 != "" {
			return failf("changing the values of a snapshot through their pointers changed the runner's variables (before vs after): %s%s", d2, ctx())
		}
	}
	entries := entryLog(o)
	entryIdx := 0
	if len(entries) > 0 {
		fmt.Sscanf(entries[len(entries)-1][strings.LastIndex(entries[len(entries)-1], "@")+1:], "%d", &entryIdx)
	}
	// (a) immutability: the original goes on, the snapshot must not move
	driveN(o, c07MaxEv, c.Choices, &nco)
	if d := frozen.diff(viewSnapshot(snap)); d != "" {
		return failf("the snapshot changed while the runner it was taken from went on: %s (was %s)%s", d, frozen, ctx())
	}
	jumpsAfter := len(entryLog(o)) - len(entries)

	// ---- reference: a fresh runner replayed up to the node entry, then driven with the continuation choices
	ref := newH()
	ncr := 0
	for len(ref.trace) <= entryIdx {
		before := len(ref.trace)
		driveN(ref, 1, c.Choices, &ncr)
		if len(ref.trace) == before || ref.trace[len(ref.trace)-1].K == "end" || ref.trace[len(ref.trace)-1].K == "panic" {
			break
		}
	}
	if len(ref.trace) <= entryIdx {
		// the entry was followed by nothing but the end: the continuation is just "end"
		if len(ref.trace) == 0 || ref.trace[len(ref.trace)-1].K != "end" {
			return Verdict{Discard: "could not replay up to the node entry"}
		}
	}
	ncc := 0
	if len(ref.trace) > 0 && ref.trace[len(ref.trace)-1].K != "end" {
		driveN(ref, c07MaxEv, c.Cont, &ncc)
	}
	want := ref.trace[min(entryIdx, len(ref.trace)):]
	if len(ref.trace) <= entryIdx {
		want = []Ev{{K: "end"}}
	}

	// ---- receiver R in some state, then RestoreAt(S)
	prepare := func() (*host, string) {
		r := newH()
		r.holdPending = true
		nc := 0
		state := "fresh"
		switch c.Receiver {
		case "steps":
			driveN(r, c.RSteps, c.RChoices, &nc)
			state = "mid-run"
		case "until-options", "until-wait", "until-end":
			for i := 0; i < c07MaxEv; i++ {
				driveN(r, 1, c.RChoices, &nc)
				last := r.trace[len(r.trace)-1]
				if last.K == "end" || last.K == "panic" ||
					(c.Receiver == "until-options" && last.K == "opts") || (c.Receiver == "until-wait" && last.K == "wait") {
					break
				}
			}
		}
		if n := len(r.trace); n > 0 {
			switch r.trace[n-1].K {
			case "opts":
				state = "waiting-for-choice"
			case "wait":
				state = "waiting-for-command"
			case "end":
				state = "ended"
			case "panic":
				state = "failed"
			default:
				state = "mid-run"
			}
		}
		r.holdPending = false
		r.trace, r.lastOpt = nil, 0
		r.fnLog = nil
		return r, state
	}
	r1, state := prepare()
	if state == "failed" {
		return Verdict{Discard: "receiver run fails before the restore"}
	}
	if err := r1.dr.RestoreAt(snap); err != nil {
		return failf("RestoreAt failed: %v%s", err, ctx())
	}
	// the variables live in the storer: after the restore it holds exactly the snapshot's variables
	if d := sameStore(frozen.vars, r1.finalStore()); d != "" {
		return failf("after RestoreAt the receiver's storer does not hold exactly the snapshot's variables (snapshot vs storer): %s%s", d, ctx())
	}
	// (d) a snapshot taken right after the restore equals the restored one
	if d := frozen.diff(viewSnapshot(r1.dr.Snapshot())); d != "" {
		return failf("a snapshot taken immediately after RestoreAt differs from the restored one (restored vs new): %s\nrestored %s%s", d, frozen, ctx())
	}
	r2, _ := prepare()
	if err := r2.dr.RestoreAt(snap); err != nil {
		return failf("second RestoreAt failed: %v%s", err, ctx())
	}
	// (b) resume
	nc1 := 0
	driveN(r1, len(want), c.Cont, &nc1)
	got := r1.trace
	if d := diffTraces(want, got); d != "" {
		return failf("after RestoreAt into a %s runner the dialogue does not continue like the original did from the entry of node %s: %s\nexpected continuation:\n%sactual:\n%s%s",
			state, frozen.node, d, showTrace(want), showTrace(r1.trace), ctx())
	}
	// the checkpoint reached later by the restored runner equals the one the reference reached
	if len(r1.trace) == len(want) && len(ref.trace) >= entryIdx {
		if d := viewSnapshot(ref.dr.Snapshot()).diff(viewSnapshot(r1.dr.Snapshot())); d != "" {
			return failf("after the same continuation the restored runner's snapshot differs from the reference runner's (reference vs restored): %s%s", d, ctx())
		}
		if d := sameStore(ref.finalStore(), r1.finalStore()); d != "" {
			return failf("after the same continuation the restored runner's variables differ from the reference runner's (reference vs restored): %s%s", d, ctx())
		}
	}
	// (c) independence: r1 has been driven; the snapshot and r2 must be untouched
	if d := frozen.diff(viewSnapshot(snap)); d != "" {
		return failf("the snapshot changed while a runner restored from it was driven: %s%s", d, ctx())
	}
	if d := frozen.diff(viewSnapshot(r2.dr.Snapshot())); d != "" {
		return failf("driving one restored runner changed the state of another runner restored from the same snapshot: %s%s", d, ctx())
	}
	nc2 := 0
	driveN(r2, len(want)+2, c.Cont, &nc2)
	got2 := r2.trace
	if len(got2) > len(want) {
		got2 = got2[:len(want)]
	}
	if d := diffTraces(want, got2); d != "" {
		return failf("a second runner restored from the same snapshot (driven after the first one) does not continue like the original: %s\nexpected:\n%sactual:\n%s%s", d, showTrace(want), showTrace(r2.trace), ctx())
	}
	// (e) a snapshot naming an unknown node fails and changes nothing
	twin, _ := prepare()
	victim, _ := prepare()
	bad := &ysgo.Snapshot{CurrentNode: "No Such Node", Variables: snap.Variables, VisitedNodes: map[string]int{"A": 7}}
	before := viewSnapshot(victim.dr.Snapshot())
	if err := victim.dr.RestoreAt(bad); err == nil {
		return failf("RestoreAt with an unknown node succeeded%s", ctx())
	}
	if d := before.diff(viewSnapshot(victim.dr.Snapshot())); d != "" {
		return failf("a failed RestoreAt changed the runner's state: %s%s", d, ctx())
	}
	{ // (a twin that waits for a never-completing command only ever says "wait" - and so must the runner whose restore was refused)
		nt, nv := 0, 0
		twin.holdPending, victim.holdPending = false, false
		// both continue from the receiver state; lastOpt is needed to answer a pending option group
		tw, vi := prepareKeepState(c, newH, &nt), prepareKeepState(c, newH, &nv)
		if err := vi.dr.RestoreAt(bad); err == nil {
			return failf("RestoreAt with an unknown node succeeded%s", ctx())
		}
		driveN(tw, 8, c.Cont, &nt)
		driveN(vi, 8, c.Cont, &nv)
		if d := diffTraces(tw.trace, vi.trace); d != "" {
			return failf("after a failed RestoreAt the runner does not go on like an untouched twin: %s%s", d, ctx())
		}
	}
	{ // a snapshot that counts visits of something that is not a node: restored, or refused - and then nothing has changed
		nt, nv := 0, 0
		tw, vi := prepareKeepState(c, newH, &nt), prepareKeepState(c, newH, &nv)
		odd := &ysgo.Snapshot{CurrentNode: snap.CurrentNode, Variables: copyVariables(snap.Variables), VisitedNodes: copyVisits(snap.VisitedNodes)}
		odd.VisitedNodes["No Such Node"] = 3
		before := viewSnapshot(vi.dr.Snapshot())
		if err := vi.dr.RestoreAt(odd); err != nil {
			if d := before.diff(viewSnapshot(vi.dr.Snapshot())); d != "" {
				return failf("a refused RestoreAt (%v) changed the runner's state: %s%s", err, d, ctx())
			}
			driveN(tw, 8, c.Cont, &nt)
			driveN(vi, 8, c.Cont, &nv)
			if d := diffTraces(tw.trace, vi.trace); d != "" {
				return failf("after a refused RestoreAt (%v) the runner does not go on like an untouched twin: %s\ntwin:\n%srunner:\n%s%s", err, d, showTrace(tw.trace), showTrace(vi.trace), ctx())
			}
		}
	}
	// (f) maps that are nil instead of empty (hand-built snapshots, saves decoded from "null") mean the same as empty ones
	for _, which := range []string{"visits", "variables"} {
		withNil := &ysgo.Snapshot{CurrentNode: snap.CurrentNode, Variables: copyVariables(snap.Variables), VisitedNodes: copyVisits(snap.VisitedNodes)}
		withEmpty := &ysgo.Snapshot{CurrentNode: snap.CurrentNode, Variables: copyVariables(snap.Variables), VisitedNodes: copyVisits(snap.VisitedNodes)}
		if which == "visits" {
			withNil.VisitedNodes, withEmpty.VisitedNodes = nil, map[string]int{}
		} else {
			withNil.Variables, withEmpty.Variables = nil, map[string]variable.Value{}
		}
		rn, _ := prepare()
		re, _ := prepare()
		var errN, errE error
		var panicked any
		func() {
			defer func() { panicked = recover() }()
			errN, errE = rn.dr.RestoreAt(withNil), re.dr.RestoreAt(withEmpty)
		}()
		if panicked != nil {
			return failf("RestoreAt panicked for a snapshot whose %s map is nil: %v%s", which, panicked, ctx())
		}
		if (errN == nil) != (errE == nil) {
			return failf("RestoreAt of a snapshot whose %s map is nil: %v; with an empty map instead: %v%s", which, errN, errE, ctx())
		}
		if errN != nil {
			continue
		}
		ncn, nce := 0, 0
		driveN(rn, 10, c.Cont, &ncn)
		driveN(re, 10, c.Cont, &nce)
		if d := diffTraces(re.trace, rn.trace); d != "" {
			return failf("a snapshot whose %s map is nil does not restore like one whose map is empty (empty vs nil): %s\nwith the empty map:\n%swith nil:\n%s%s", which, d, showTrace(re.trace), showTrace(rn.trace), ctx())
		}
		if d := viewSnapshot(re.dr.Snapshot()).diff(viewSnapshot(rn.dr.Snapshot())); d != "" {
			return failf("after restoring a snapshot whose %s map is nil and going on, the state differs from the same with an empty map (empty vs nil): %s%s", which, d, ctx())
		}
	}
	cls := []string{"receiver=" + state, fmt.Sprintf("entries-before-snapshot=%d", min(len(entries), 4))}
	if jumpsAfter > 0 {
		cls = append(cls, "original-jumped-after-snapshot")
	}
	return Verdict{NonTrivial: len(entries) >= 2 && state != "fresh", Classes: cls}
}

// scribbleVariables changes every value of the map through its pointer and returns the function that undoes it.
func scribbleVariables(vars map[string]variable.Value) func() {
	var undo []func()
	for _, v := range vars {
		switch {
		case v.Boolean != nil:
			p, old := v.Boolean, *v.Boolean
			*p = !old
			undo = append(undo, func() { *p = old })
		case v.Number != nil:
			p, old := v.Number, *v.Number
			*p = old + 1000.5
			undo = append(undo, func() { *p = old })
		case v.String != nil:
			p, old := v.String, *v.String
			*p = old + " (changed by the host)"
			undo = append(undo, func() { *p = old })
		}
	}
	return func() {
		for _, f := range undo {
			f()
		}
	}
}

func copyVariables(in map[string]variable.Value) map[string]variable.Value {
	out := make(map[string]variable.Value, len(in))
	for k, v := range in {
		cp := fromMval(toMval(&v))
		out[k] = *cp
	}
	return out
}

func copyVisits(in map[string]int) map[string]int {
	out := make(map[string]int, len(in))
	for k, v := range in {
		out[k] = v
	}
	return out
}

// prepareKeepState drives a fresh runner into the receiver state and keeps its trace bookkeeping (for the twin comparison).
func prepareKeepState(c c07Case, newH func() *host, nc *int) *host {
	r := newH()
	r.holdPending = true
	defer func() { r.holdPending = false }()
	switch c.Receiver {
	case "steps":
		driveN(r, c.RSteps, c.RChoices, nc)
	case "until-options", "until-wait", "until-end":
		for i := 0; i < c07MaxEv; i++ {
			driveN(r, 1, c.RChoices, nc)
			last := r.trace[len(r.trace)-1]
			if last.K == "end" || last.K == "panic" || (c.Receiver == "until-options" && last.K == "opts") || (c.Receiver == "until-wait" && last.K == "wait") {
				break
			}
		}
	}
	return r
}

var snapScriptOpts = scriptOpts{maxNodes: 4, maxDepth: 3, maxBody: 4, tracking: true, visitText: true, enterProbe: true, endWithJump: 3, firstLine: true, shadow: true,
	extraStmt: func(g *scriptGen, depth int) *Stmt {
		switch rapid.IntRange(0, 8).Draw(g.t, "snapstmt") {
		case 8:
			return &Stmt{K: "call", Fn: "clamp", Args: []*Expr{varRef(rapid.SampledFrom([]string{"k1", "k2"}).Draw(g.t, "v"))}}
		case 6, 7:
			// zero with the other sign: equal under ==, shown alike, but a different value (1/$k1 tells them apart); a restore
			// that skips "unchanged" variables must not take one for the other
			v := rapid.SampledFrom([]string{"k1", "k2"}).Draw(g.t, "v")
			return rapid.SampledFrom([]*Stmt{
				{K: "set", Var: v, Op: "=", E: bin("*", varRef(v), neg(num("1")))},
				{K: "set", Var: v, Op: "=", E: bin("*", num("0"), neg(num("1")))},
				{K: "set", Var: v, Op: "=", E: num("0")},
				{K: "line", Text: []TextPart{{S: "inverse of " + v + " "}, {E: bin("/", num("1"), varRef(v))}}},
			}).Draw(g.t, "zero")
		case 5:
			// a jump that fails: the checkpoint must stay the one of the node entry
			return rapid.SampledFrom([]*Stmt{{K: "jump", Target: "Nowhere"}, {K: "jumpx", E: str("No Such Node")}, {K: "jumpx", E: num("3")}}).Draw(g.t, "badjump")
		case 4:
			// a variable only this path defines: receivers may hold variables the snapshot lacks, and vice versa
			g.lineID++
			return &Stmt{K: "set", Var: fmt.Sprintf("x%d", g.lineID), Op: "=", E: num(fmt.Sprint(g.lineID))}
		case 0, 2:
			return &Stmt{K: "cmd", Words: []TextPart{{S: "hold"}}}
		case 1:
			return &Stmt{K: "jump", Target: g.jumpTarget()}
		}
		return nil
	}}

var c07Snap = Register(Prop[c07Case]{
	ID: "C07", Name: "snapshots",
	Gen: func(t *rapid.T) c07Case {
		f := genFlowCase(t, snapScriptOpts)
		c := c07Case{Script: f.Script, Vars: f.Vars, Choices: f.Choices, Storer: rapid.SampledFrom([]string{"", "", "in-memory"}).Draw(t, "storer"),
			HostVisited: rapid.IntRange(0, 3).Draw(t, "hostvisited") == 0}
		if rapid.IntRange(0, 2).Draw(t, "declared") == 0 {
			// no variables before the dialogue starts: the start node sets them itself, so the very first checkpoint is empty
			start := c.Script.allNodes()[0]
			var sets []*Stmt
			names := make([]string, 0, len(c.Vars))
			for k := range c.Vars {
				names = append(names, k)
			}
			sort.Strings(names)
			for _, k := range names {
				v := c.Vars[k]
				var e *Expr
				switch v.T {
				case 'n':
					e = num(displayNumberCanonical(v.N))
				case 'b':
					e = boolean(v.B)
				default:
					e = str(v.S)
				}
				sets = append(sets, &Stmt{K: "set", Var: k, Op: "=", E: e})
			}
			start.Body = append(append([]*Stmt{start.Body[0]}, sets...), start.Body[1:]...)
			c.Vars = map[string]mval{}
		}
		if rapid.IntRange(0, 5).Draw(t, "untitled") == 0 {
			// a start node without a title header (it has another header): its name is the empty string, and a node like any other
			start := c.Script.allNodes()[0]
			// (copies of the start node's title further down have no entry probe and must stay unreachable: they go)
			for fi, file := range c.Script.Files {
				var keep []*Node
				for _, n := range file {
					if n == start || n.Title != start.Title {
						keep = append(keep, n)
					}
				}
				c.Script.Files[fi] = keep
			}
			var files [][]*Node
			for _, file := range c.Script.Files {
				if len(file) > 0 {
					files = append(files, file)
				}
			}
			c.Script.Files = files
			c.Script.FileTags = nil
			start.Title = ""
			if len(start.Headers) == 0 {
				start.Headers = append(start.Headers, [2]string{"colour", "red and blue"})
			}
		}
		c.K = rapid.IntRange(0, 14).Draw(t, "k")
		c.Receiver = rapid.SampledFrom([]string{"fresh", "steps", "steps", "until-options", "until-options", "until-wait", "until-wait", "until-end"}).Draw(t, "receiver")
		c.RSteps = rapid.IntRange(1, 8).Draw(t, "rsteps")
		c.RChoices = genChoices(t)
		c.Cont = genChoices(t)
		return c
	},
	Run: runC07,
	Minimize: func(c c07Case, stillFails func(c07Case) bool) c07Case {
		c.Script = minimizeScript(c.Script, func(s *Script) bool { cc := c; cc.Script = s; return stillFails(cc) })
		return c
	},
	Render: func(c c07Case) any {
		return map[string]any{"files": renderCanonical(c.Script), "choices": c.Choices, "snapshot_after_calls": c.K, "receiver": c.Receiver, "receiver_choices": c.RChoices, "continuation_choices": c.Cont}
	},
})

func TestC07Snapshots(t *testing.T) { Check(t, c07Snap) }

var _ = sort.Strings
