//go:build verif

package harness

// Script generator shared by the flow-oriented properties (C01, C06, C07, C08, C09, C11, C12, C18).
// Generated scripts are fault-free by construction unless a property injects faults itself.

import (
	"encoding/json"
	"fmt"

	"pgregory.net/rapid"
)

type scriptOpts struct {
	maxNodes    int
	maxDepth    int
	maxBody     int
	forwardOnly bool // jumps only to later nodes (no cycles)
	stopBias    int  // 0 = default; higher = more <<stop>> inside nested bodies
	tracking    bool // generate tracking headers
	visitText   bool // lines render visited_count/visited
	enterProbe  bool // every node starts with <<call enter("title")>>
	noCommands  bool
	firstLine   bool                                // every node starts with a line: no cycle of jumps can run without yielding
	router      bool                                // in a third of the scripts the first node dispatches through <<jump {$dest}>> and the others come back to it
	endWithJump int                                 // n > 0: a node body ends with a jump in n of n+1 cases
	random      bool                                // use dice/random/random_range in lines, sets and conditions
	extraStmt   func(g *scriptGen, depth int) *Stmt // property-specific statements
	shadow      bool                                // sometimes later nodes repeat an earlier title (the first one wins everywhere; the copies never run)
}

type scriptGen struct {
	budget int // statements still allowed (keeps scripts, and so parse times, moderate)
	t      *rapid.T
	o      scriptOpts
	titles []string
	nodeIx int
	lineID int
	probe  int
}

var flowVars = map[string]mval{
	"f1": boolVal(true), "f2": boolVal(false),
	"k1": numVal(0), "k2": numVal(2),
	"dest": strVal("A"),
}

func genFlowVars(t *rapid.T, titles []string) map[string]mval {
	return map[string]mval{
		"f1": boolVal(rapid.Bool().Draw(t, "f1")), "f2": boolVal(rapid.Bool().Draw(t, "f2")),
		"k1": numVal(float64(rapid.IntRange(0, 3).Draw(t, "k1"))), "k2": numVal(float64(rapid.IntRange(0, 3).Draw(t, "k2"))),
		"dest": strVal(rapid.SampledFrom(titles).Draw(t, "dest")),
	}
}

func (g *scriptGen) cond() *Expr {
	t := g.t
	sp := rapid.IntRange(0, 2).Draw(t, "sp")
	w := func(e *Expr) *Expr { e.Sp = sp; return e }
	switch rapid.IntRange(0, 11).Draw(t, "cond") {
	case 0:
		return boolean(rapid.Bool().Draw(t, "lit"))
	case 1, 2:
		return varRef(rapid.SampledFrom([]string{"f1", "f2"}).Draw(t, "v"))
	case 3:
		return w(not(varRef(rapid.SampledFrom([]string{"f1", "f2"}).Draw(t, "v"))))
	case 4, 5:
		op := rapid.SampledFrom([]string{"<", "<=", ">", ">=", "==", "!="}).Draw(t, "op")
		return w(bin(op, varRef(rapid.SampledFrom([]string{"k1", "k2"}).Draw(t, "v")), num(fmt.Sprint(rapid.IntRange(0, 3).Draw(t, "n")))))
	case 6:
		op := rapid.SampledFrom([]string{"and", "or", "xor"}).Draw(t, "op")
		return w(bin(op, varRef("f1"), w(bin(">", varRef("k1"), num("1")))))
	case 7:
		return call("visited", str(rapid.SampledFrom(g.titles).Draw(t, "node")))
	case 8:
		return w(bin(">=", call("visited_count", str(rapid.SampledFrom(g.titles).Draw(t, "node"))), num(fmt.Sprint(rapid.IntRange(1, 2).Draw(t, "n")))))
	case 9:
		g.probe++
		return call(rapid.SampledFrom([]string{"pt", "pf"}).Draw(t, "probe"), str(fmt.Sprint("c", g.probe)))
	case 10:
		if g.o.random {
			return w(bin(">", call("dice", num("6")), num("3")))
		}
		return w(bin("==", varRef("k1"), varRef("k2")))
	default:
		return w(bin("==", bin("%", varRef("k1"), num("2")), num("0")))
	}
}

func (g *scriptGen) lineText() []TextPart {
	t := g.t
	g.lineID++
	parts := []TextPart{{S: fmt.Sprintf("L%d", g.lineID)}}
	if rapid.IntRange(0, 7).Draw(t, "oddstart") == 0 {
		// lines whose first characters could be mistaken for something else by a line-oriented look-ahead
		parts[0].S = rapid.SampledFrom([]string{"/k ", "a/b ", "<k ", "é ", "- ", "= ", "} ", "] ", "/", "x/",
			// characters that are white space to Unicode but ordinary text to the lexer (the text is trimmed in the end)
			"\u00a0k ", "\u3000k ", "\u2003", "\u0085k ", "\u200bk "}).Draw(t, "start") + parts[0].S
	}
	switch rapid.IntRange(0, 9).Draw(t, "linekind") {
	case 0:
		parts = append(parts, TextPart{S: " k1="}, TextPart{E: varRef("k1")})
	case 1:
		parts = append(parts, TextPart{S: " f1="}, TextPart{E: varRef("f1")}, TextPart{S: " k2="}, TextPart{E: varRef("k2")})
	case 2:
		parts = append(parts, TextPart{S: " some words, here."})
	case 5:
		parts = append(parts, TextPart{S: " 1/k1="}, TextPart{E: bin("/", num("1"), varRef("k1"))}, TextPart{S: " 1/k2="}, TextPart{E: bin("/", num("1"), varRef("k2"))})
	case 3:
		if g.o.random {
			parts = append(parts, TextPart{S: " roll "}, TextPart{E: call("dice", num(fmt.Sprint(rapid.SampledFrom([]int{1, 2, 6, 20, 1000000}).Draw(t, "sides"))))},
				TextPart{S: " "}, TextPart{E: call("random_range", num("3"), num(fmt.Sprint(rapid.SampledFrom([]int{3, 4, 10}).Draw(t, "hi"))))})
		}
	case 4:
		if g.o.random {
			parts = append(parts, TextPart{S: " r="}, TextPart{E: call("random")})
		}
	case 6:
		// a line or label that consists of interpolations only and comes out empty: an element like any other
		if rapid.IntRange(0, 2).Draw(t, "emptytext") == 0 {
			parts = []TextPart{{E: str("")}}
			if rapid.Bool().Draw(t, "twice") {
				parts = append(parts, TextPart{E: bin("+", str(""), str(""))})
			}
		}
	}
	if g.o.visitText && rapid.IntRange(0, 1).Draw(t, "visits") == 0 {
		for _, n := range g.titles {
			parts = append(parts, TextPart{S: " " + n + "="}, TextPart{E: call("visited_count", str(n))}, TextPart{S: "/"}, TextPart{E: call("visited", str(n))})
		}
		parts = append(parts, TextPart{S: " nowhere="}, TextPart{E: call("visited_count", str("Nowhere"))}, TextPart{S: "/"}, TextPart{E: call("visited", str("Nowhere"))})
	}
	return parts
}

// plainLine: a line statement; now and then it carries an <<if>> condition, which means something on options only:
// on a plain line it is neither evaluated nor obeyed.
func (g *scriptGen) plainLine() *Stmt {
	s := &Stmt{K: "line", Text: g.lineText(), Tags: g.tags()}
	switch rapid.IntRange(0, 11).Draw(g.t, "linecond") {
	case 0:
		s.E = g.cond()
	case 1:
		s.E = rapid.SampledFrom([]*Expr{boolean(false), varRef("never_defined"), num("3"), not(varRef("f1"))}).Draw(g.t, "oddcond")
	}
	return s
}

func (g *scriptGen) tags() []string {
	switch rapid.IntRange(0, 7).Draw(g.t, "tags") {
	case 0:
		return []string{"t1"}
	case 1:
		return []string{"a:b", "t2"}
	}
	return nil
}

func (g *scriptGen) jumpTarget() string {
	if g.o.forwardOnly {
		if g.nodeIx+1 >= len(g.titles) {
			return ""
		}
		return g.titles[rapid.IntRange(g.nodeIx+1, len(g.titles)-1).Draw(g.t, "target")]
	}
	return rapid.SampledFrom(g.titles).Draw(g.t, "target")
}

func (g *scriptGen) setStmt() *Stmt {
	t := g.t
	switch rapid.IntRange(0, 10).Draw(t, "set") {
	case 10:
		// changes the sign: a variable that is 0 becomes -0, which shows as 0 but divides differently
		v := rapid.SampledFrom([]string{"k1", "k2"}).Draw(t, "v")
		if rapid.Bool().Draw(t, "byproduct") {
			return &Stmt{K: "set", Var: v, Op: "=", E: bin("*", varRef(v), neg(num("1")))}
		}
		return &Stmt{K: "set", Var: v, Op: "=", E: neg(varRef(v))}
	case 0:
		v := rapid.SampledFrom([]string{"f1", "f2"}).Draw(t, "v")
		return &Stmt{K: "set", Var: v, Op: "=", E: not(varRef(v))}
	case 1, 2:
		return &Stmt{K: "set", Var: rapid.SampledFrom([]string{"k1", "k2"}).Draw(t, "v"), Op: rapid.SampledFrom([]string{"+=", "-=", "+="}).Draw(t, "op"), E: num(fmt.Sprint(rapid.IntRange(1, 2).Draw(t, "n")))}
	case 3:
		return &Stmt{K: "set", Var: "k1", Op: "=", E: bin("+", varRef("k1"), num("1"))}
	case 4:
		return &Stmt{K: "set", Var: "f2", Op: "=", E: g.cond()}
	case 5:
		return &Stmt{K: "declare", Var: "k2", Op: "=", E: num(fmt.Sprint(rapid.IntRange(0, 3).Draw(t, "n")))}
	case 6:
		if g.o.random {
			return &Stmt{K: "set", Var: "k1", Op: "=", E: call("dice", num("4"))}
		}
		return &Stmt{K: "set", Var: "k2", Op: "=", E: num("0")}
	default:
		if len(g.titles) > 0 {
			tgt := rapid.SampledFrom(g.titles).Draw(t, "dest")
			if g.o.forwardOnly {
				if tgt = g.jumpTarget(); tgt == "" {
					return &Stmt{K: "set", Var: "k2", Op: "=", E: num("1")}
				}
			}
			return &Stmt{K: "set", Var: "dest", Op: "=", E: str(tgt)}
		}
		return &Stmt{K: "set", Var: "k2", Op: "=", E: num("1")}
	}
}

func (g *scriptGen) body(depth int, minLen int) []*Stmt {
	t := g.t
	n := rapid.IntRange(minLen, g.o.maxBody).Draw(t, "bodylen")
	var out []*Stmt
	for i := 0; i < n; i++ {
		s := g.stmt(depth)
		if s == nil {
			continue
		}
		if s.K == "opts" && len(out) > 0 && out[len(out)-1].K == "opts" {
			continue // two adjacent groups would be one group
		}
		out = append(out, s)
	}
	return out
}

func (g *scriptGen) stmt(depth int) *Stmt {
	t := g.t
	g.budget--
	if g.budget < 0 {
		return nil
	}
	if g.o.extraStmt != nil && rapid.IntRange(0, 5).Draw(t, "extra") == 0 {
		if s := g.o.extraStmt(g, depth); s != nil {
			return s
		}
	}
	kind := rapid.IntRange(0, 23).Draw(t, "stmt")
	nested := depth < g.o.maxDepth
	if kind >= 20 { // more nesting
		kind = 6 + (kind-20)*2 // 6, 8, 10, 12 -> options or if
		if kind > 11 {
			kind = 9
		}
	}
	switch {
	case kind <= 5:
		return g.plainLine()
	case kind <= 8 && nested:
		s := &Stmt{K: "opts"}
		n := rapid.IntRange(1, 4).Draw(t, "nopts")
		for i := 0; i < n; i++ {
			o := &Opt{Text: g.lineText(), Tags: g.tags()}
			if rapid.IntRange(0, 2).Draw(t, "hascond") == 0 {
				o.Cond = g.cond()
			}
			if rapid.IntRange(0, 4).Draw(t, "hasbody") != 0 {
				o.Body = g.body(depth+1, 0)
			}
			s.Opts = append(s.Opts, o)
		}
		return s
	case kind <= 11 && nested:
		s := &Stmt{K: "if"}
		n := rapid.IntRange(1, 3).Draw(t, "clauses")
		for i := 0; i < n; i++ {
			s.Clauses = append(s.Clauses, &Clause{Cond: g.cond(), Body: g.body(depth+1, 0)})
		}
		if rapid.Bool().Draw(t, "else") {
			s.HasElse = true
			s.Else = g.body(depth+1, 0)
		}
		return s
	case kind <= 13:
		return g.setStmt()
	case kind == 14:
		tgt := g.jumpTarget()
		if tgt == "" {
			return nil
		}
		return &Stmt{K: "jump", Target: tgt}
	case kind == 15:
		if g.o.forwardOnly {
			tgt := g.jumpTarget()
			if tgt == "" {
				return nil
			}
			return &Stmt{K: "jumpx", E: str(tgt)}
		}
		if rapid.IntRange(0, 2).Draw(t, "viaVar") != 0 {
			return &Stmt{K: "jumpx", E: varRef("dest")}
		}
		return &Stmt{K: "jumpx", E: bin("+", str(""), str(g.jumpTarget()))}
	case kind == 16:
		if rapid.IntRange(0, 3-min(g.o.stopBias, 3)).Draw(t, "stop") == 0 {
			return g.stopStmt()
		}
		return &Stmt{K: "line", Text: g.lineText(), Tags: g.tags()}
	case kind == 17:
		g.probe++
		return &Stmt{K: "call", Fn: rapid.SampledFrom([]string{"pt", "pf"}).Draw(t, "fn"), Args: []*Expr{str(fmt.Sprint("s", g.probe))}}
	case kind == 18 && !g.o.noCommands:
		g.probe++
		words := []TextPart{{S: rapid.SampledFrom([]string{"c0", "c1", "c2", "iffy", "settings"}).Draw(t, "cmd")}, {S: fmt.Sprint("w", g.probe)}}
		switch rapid.IntRange(0, 3).Draw(t, "cmdarg") {
		case 0:
			words = append(words, TextPart{S: "12"}, TextPart{S: "true"})
		case 1:
			words = append(words, TextPart{E: varRef("k1")})
		case 2:
			words = append(words, TextPart{S: "-1.5"}, TextPart{E: bin("+", varRef("k2"), num("1"))}, TextPart{S: "tail"})
		}
		return &Stmt{K: "cmd", Words: words}
	default:
		if g.o.stopBias > 0 && depth > 0 && rapid.IntRange(0, 2).Draw(t, "stopb") == 0 {
			return g.stopStmt()
		}
		return &Stmt{K: "line", Text: g.lineText(), Tags: g.tags()}
	}
}

// stopStmt: <<stop>>, sometimes spelled with further words or with the name computed (it ends the dialogue all the same
// and is never dispatched to a handler).
func (g *scriptGen) stopStmt() *Stmt {
	switch rapid.IntRange(0, 5).Draw(g.t, "stopform") {
	case 0:
		return &Stmt{K: "cmd", Words: []TextPart{{S: "stop"}, {S: "now"}}}
	case 1:
		return &Stmt{K: "cmd", Words: []TextPart{{S: "stop"}, {E: varRef("k1")}, {S: "please"}}}
	}
	return &Stmt{K: "stop"}
}

var nodeTitlePool = []string{"A", "B", "C", "D", "E", "Node_6", "g7"}

func genScript(t *rapid.T, o scriptOpts) *Script {
	g := &scriptGen{t: t, o: o, budget: 70}
	n := rapid.IntRange(1, o.maxNodes).Draw(t, "nodes")
	g.titles = append([]string{}, nodeTitlePool[:n]...)
	var nodes []*Node
	for i := 0; i < n; i++ {
		g.nodeIx = i
		node := &Node{Title: g.titles[i]}
		if o.tracking {
			node.Tracking = rapid.SampledFrom([]string{"", "", "never", "always"}).Draw(t, "tracking")
		}
		if rapid.IntRange(0, 5).Draw(t, "hdr") == 0 {
			node.Headers = append(node.Headers, [2]string{"colour", "red and blue"})
		}
		if o.enterProbe {
			node.Body = append(node.Body, &Stmt{K: "call", Fn: "enter", Args: []*Expr{str(node.Title)}})
		}
		if o.firstLine || rapid.IntRange(0, 6).Draw(t, "firstline") != 0 {
			node.Body = append(node.Body, &Stmt{K: "line", Text: g.lineText()})
		}
		for _, s := range g.body(0, 0) {
			if s.K == "opts" && len(node.Body) > 0 && node.Body[len(node.Body)-1].K == "opts" {
				continue
			}
			node.Body = append(node.Body, s)
		}
		if o.endWithJump > 0 && rapid.IntRange(0, o.endWithJump).Draw(t, "endjump") != 0 {
			if tgt := g.jumpTarget(); tgt != "" {
				if rapid.Bool().Draw(t, "byexpr") {
					node.Body = append(node.Body, &Stmt{K: "jumpx", E: str(tgt)})
				} else {
					node.Body = append(node.Body, &Stmt{K: "jump", Target: tgt})
				}
			}
		}
		nodes = append(nodes, node)
	}
	if o.router && !o.forwardOnly && n >= 2 && rapid.IntRange(0, 2).Draw(t, "router") == 0 {
		// the same jump-by-expression statement is executed again and again with another destination each time
		nodes[0].Body = append([]*Stmt{{K: "line", Text: g.lineText()}}, nodes[0].Body...)
		nodes[0].Body = append(nodes[0].Body, &Stmt{K: "jumpx", E: varRef("dest")})
		for i := 1; i < n; i++ {
			next := g.titles[1+rapid.IntRange(0, n-2).Draw(t, "nextdest")]
			nodes[i].Body = append([]*Stmt{{K: "line", Text: g.lineText()}}, nodes[i].Body...)
			nodes[i].Body = append(nodes[i].Body, &Stmt{K: "set", Var: "dest", Op: "=", E: str(next)}, &Stmt{K: "jump", Target: g.titles[0]})
		}
	}
	var shadows []*Node
	if o.shadow && rapid.IntRange(0, 3).Draw(t, "shadow") == 0 {
		for i := 0; i < rapid.IntRange(1, 2).Draw(t, "shadows"); i++ {
			orig := nodes[rapid.IntRange(0, n-1).Draw(t, "shadowed")]
			cp := &Node{Title: orig.Title, Tracking: "never", Body: []*Stmt{{K: "line", Text: []TextPart{{S: "in the shadowed copy of " + orig.Title}}}, {K: "jump", Target: g.titles[0]}}}
			if orig.Tracking == "never" {
				cp.Tracking = rapid.SampledFrom([]string{"", "always"}).Draw(t, "shadowtracking")
			}
			shadows = append(shadows, cp)
		}
	}
	// distribute over 1-3 readers
	sc := &Script{}
	k := rapid.IntRange(1, min(3, n)).Draw(t, "readers")
	sc.Files = make([][]*Node, k)
	cuts := map[int]bool{}
	for len(cuts) < k-1 {
		cuts[rapid.IntRange(1, n-1).Draw(t, "cut")] = true
	}
	f := 0
	for i, node := range nodes {
		if cuts[i] {
			f++
		}
		sc.Files[f] = append(sc.Files[f], node)
	}
	if rapid.IntRange(0, 3).Draw(t, "filetags") == 0 {
		sc.FileTags = make([][]string, len(sc.Files))
		for i := range sc.Files {
			sc.FileTags[i] = rapid.SampledFrom([][]string{nil, {"chapter:two"}, {"filetag", "another:tag"}, {"t1"}}).Draw(t, "tags")
		}
	}
	if len(shadows) > 0 {
		if rapid.Bool().Draw(t, "shadowreader") {
			sc.Files = append(sc.Files, shadows)
		} else {
			sc.Files[len(sc.Files)-1] = append(sc.Files[len(sc.Files)-1], shadows...)
		}
	}
	return sc
}

func genChoices(t *rapid.T) []int {
	return rapid.SliceOfN(rapid.IntRange(0, 3), 0, 8).Draw(t, "choices")
}

func genJunk(t *rapid.T) []int {
	if rapid.Bool().Draw(t, "junk") {
		return nil
	}
	return rapid.SliceOfN(rapid.SampledFrom([]int{0, 1, -1, 7, 99, -1 << 31, 1 << 40}), 1, 4).Draw(t, "junkargs")
}

// genLayout draws a random layout; tape bytes are biased towards 0 (the canonical choice).
func genLayout(t *rapid.T) Layout {
	lay := Layout{
		Unit:      rapid.SampledFrom([]int{4, 4, 2, 1, 3, 8, 0, 0, -1, -2}).Draw(t, "unit"),
		MixedEnds: rapid.IntRange(0, 4).Draw(t, "mixedends") == 0,
		CRLF:      rapid.IntRange(0, 3).Draw(t, "crlf") == 0,
		FlatIf:    rapid.IntRange(0, 2).Draw(t, "flatif") == 0,
		NoFinalNL: rapid.IntRange(0, 4).Draw(t, "nofinalnl") == 0,
		LongNoise: rapid.SampledFrom([]int{0, 0, 0, 0, 0, 0, 0, 0, 300, 5000, 66000, 140000}).Draw(t, "longnoise"),
	}
	lay.Tape = rapid.SliceOfN(rapid.SampledFrom([]uint8{0, 0, 0, 0, 0, 0, 0, 1, 2, 3, 4, 5, 6, 7, 9, 13}), 200, 450).Draw(t, "tape")
	return lay
}

// minimizeScript is a greedy structural minimiser: it removes nodes, statements, options, clauses, tags, conditions
// and text parts one at a time, keeping every removal after which the case still fails the same way.
func minimizeScript(sc *Script, fails func(*Script) bool) *Script {
	clone := func(s *Script) *Script {
		b, _ := json.Marshal(s)
		var out Script
		_ = json.Unmarshal(b, &out)
		return &out
	}
	cur := clone(sc)
	// a path-independent enumeration of edit sites: edits are tried by index until one full pass changes nothing
	type edit func(s *Script) bool // applies the n-th edit of its kind; false when there is no such site
	var bodies func(s *Script) []*[]*Stmt
	bodies = func(s *Script) []*[]*Stmt {
		var out []*[]*Stmt
		var walk func(b *[]*Stmt)
		walk = func(b *[]*Stmt) {
			out = append(out, b)
			for _, st := range *b {
				for _, o := range st.Opts {
					walk(&o.Body)
				}
				for _, c := range st.Clauses {
					walk(&c.Body)
				}
				if st.HasElse {
					walk(&st.Else)
				}
			}
		}
		for _, f := range s.Files {
			for _, n := range f {
				walk(&n.Body)
			}
		}
		return out
	}
	try := func(apply func(s *Script) bool) bool {
		cand := clone(cur)
		if !apply(cand) {
			return false
		}
		if fails(cand) {
			cur = cand
			return true
		}
		return false
	}
	for pass := 0; pass < 6; pass++ {
		changed := false
		// remove whole nodes (never the last one)
		for fi := 0; fi < len(cur.Files); fi++ {
			for ni := len(cur.Files[fi]) - 1; ni >= 0; ni-- {
				fi, ni := fi, ni
				if try(func(s *Script) bool {
					if len(s.allNodes()) <= 1 || fi >= len(s.Files) || ni >= len(s.Files[fi]) {
						return false
					}
					s.Files[fi] = append(s.Files[fi][:ni:ni], s.Files[fi][ni+1:]...)
					if len(s.Files[fi]) == 0 {
						s.Files = append(s.Files[:fi:fi], s.Files[fi+1:]...)
					}
					return len(s.Files) > 0
				}) {
					changed = true
				}
			}
		}
		// remove statements
		for bi := 0; bi < len(bodies(cur)); bi++ {
			for si := len(*bodies(cur)[bi]) - 1; si >= 0; si-- {
				bi, si := bi, si
				if try(func(s *Script) bool {
					bs := bodies(s)
					if bi >= len(bs) || si >= len(*bs[bi]) {
						return false
					}
					b := bs[bi]
					*b = append((*b)[:si:si], (*b)[si+1:]...)
					return true
				}) {
					changed = true
				}
			}
		}
		// simplify statements in place
		for bi := 0; bi < len(bodies(cur)); bi++ {
			for si := 0; si < len(*bodies(cur)[bi]); si++ {
				for kind := 0; kind < 6; kind++ {
					bi, si, kind := bi, si, kind
					for n := 0; n < 5; n++ {
						n := n
						if !try(func(s *Script) bool {
							bs := bodies(s)
							if bi >= len(bs) || si >= len(*bs[bi]) {
								return false
							}
							st := (*bs[bi])[si]
							switch kind {
							case 0: // drop an option
								if len(st.Opts) <= 1 || n >= len(st.Opts) {
									return false
								}
								st.Opts = append(st.Opts[:n:n], st.Opts[n+1:]...)
							case 1: // drop a clause / the else
								if n == 0 && st.HasElse {
									st.HasElse, st.Else = false, nil
									return true
								}
								if len(st.Clauses) <= 1 || n >= len(st.Clauses) {
									return false
								}
								st.Clauses = append(st.Clauses[:n:n], st.Clauses[n+1:]...)
							case 2: // drop tags
								if n != 0 || len(st.Tags) == 0 {
									return false
								}
								st.Tags = nil
							case 3: // drop an option's condition or tags
								if n >= len(st.Opts) || (st.Opts[n].Cond == nil && len(st.Opts[n].Tags) == 0) {
									return false
								}
								st.Opts[n].Cond, st.Opts[n].Tags = nil, nil
							case 4: // shorten a line's text to its first part
								if n != 0 || len(st.Text) <= 1 {
									return false
								}
								st.Text = st.Text[:1]
							case 5: // shorten an option's text
								if n >= len(st.Opts) || len(st.Opts[n].Text) <= 1 {
									return false
								}
								st.Opts[n].Text = st.Opts[n].Text[:1]
							}
							return true
						}) {
							break
						}
						changed = true
					}
				}
			}
		}
		if !changed {
			break
		}
	}
	return cur
}

func minimizeFlow(c flowCase, stillFails func(flowCase) bool) flowCase {
	c.Script = minimizeScript(c.Script, func(s *Script) bool {
		cc := c
		cc.Script = s
		return stillFails(cc)
	})
	for len(c.Choices) > 0 { // drop trailing choices
		cc := c
		cc.Choices = c.Choices[:len(c.Choices)-1]
		if !stillFails(cc) {
			break
		}
		c = cc
	}
	if len(c.Junk) > 0 {
		cc := c
		cc.Junk = nil
		if stillFails(cc) {
			c = cc
		}
	}
	return c
}
