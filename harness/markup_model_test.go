//go:build verif

package harness

// Markup generator and reference model (C13, C14, C15). The expected text and attribute ranges are
// computed from the generated segment structure, never by parsing the rendered string.

import (
	"fmt"
	"math"
	"sort"
	"strconv"
	"strings"
	"unicode"
	"unicode/utf8"

	"github.com/remieven/ysgo/markup"
	"pgregory.net/rapid"
)

type mprop struct {
	Name string `json:"n"`
	Kind string `json:"k"` // int, float, bool, quoted, word
	Lit  string `json:"l"` // the value as written (without quotes for quoted)
}

type mseg struct {
	K     string  `json:"k"`           // text, esc, open, close, closeall, self, select, plural, ordinal, nomarkup
	S     string  `json:"s,omitempty"` // text chunk / escaped bracket / raw nomarkup content
	Name  string  `json:"name,omitempty"`
	Props []mprop `json:"props,omitempty"`
	Short bool    `json:"short,omitempty"` // first property written as [name=value ...]
	Pad   []int   `json:"pad,omitempty"`   // blanks at the padding points inside the marker, consumed in order
	Close string  `json:"close,omitempty"` // nomarkup: "name", "all" or "self"
}

type markupLine struct {
	Prefix string `json:"prefix,omitempty"` // character name ("" = none); rendered as Prefix + ":" + blanks
	PreWS  int    `json:"prews,omitempty"`  // blanks after the colon (>=1 when Prefix is set)
	Segs   []mseg `json:"segs"`
}

type wantAttr struct {
	Name     string
	Pos, Len int
	Props    map[string]markup.Value
}

type markupExpect struct {
	Text  string
	Attrs []wantAttr
	// CharacterDecided: the model knows what the implicit character attribute must be (present or absent).
	CharacterDecided bool
}

func pads(seg mseg) func() string {
	i := 0
	return func() string {
		n := 0
		if i < len(seg.Pad) {
			n = seg.Pad[i]
		}
		i++
		return strings.Repeat(" ", n)
	}
}

func renderProp(p mprop, pad func() string) string {
	v := p.Lit
	if p.Kind == "quoted" {
		v = `"` + strings.ReplaceAll(strings.ReplaceAll(p.Lit, `\`, `\\`), `"`, `\"`) + `"`
	}
	return p.Name + pad() + "=" + pad() + v
}

func renderSeg(seg mseg) string {
	pad := pads(seg)
	marker := func(selfClosing bool) string {
		var b strings.Builder
		b.WriteString("[" + pad())
		props := seg.Props
		if seg.Short && len(props) > 0 {
			b.WriteString(renderProp(mprop{Name: seg.Name, Kind: props[0].Kind, Lit: props[0].Lit}, pad))
			props = props[1:]
		} else {
			b.WriteString(seg.Name)
		}
		for _, p := range props {
			b.WriteString(" " + pad() + renderProp(p, pad))
		}
		if selfClosing {
			b.WriteString(" " + pad() + "/" + pad() + "]")
		} else {
			b.WriteString(pad() + "]")
		}
		return b.String()
	}
	switch seg.K {
	case "text":
		return seg.S
	case "esc":
		return `\` + seg.S
	case "open":
		return marker(false)
	case "self":
		return marker(true)
	case "select", "plural", "ordinal":
		switch seg.Close {
		case "name":
			return marker(false) + seg.S + "[" + pad() + "/" + pad() + seg.Name + pad() + "]"
		case "all":
			return marker(false) + seg.S + "[/]"
		}
		return marker(true)
	case "close":
		return "[" + pad() + "/" + pad() + seg.Name + pad() + "]"
	case "closeall":
		return "[" + pad() + "/" + pad() + "]"
	case "nomarkup":
		switch seg.Close {
		case "self":
			return "[nomarkup" + pad() + "/]"
		case "all":
			return "[nomarkup]" + seg.S + "[/]"
		default:
			return "[nomarkup]" + seg.S + "[" + pad() + "/" + pad() + "nomarkup" + pad() + "]"
		}
	}
	panic("unknown segment kind " + seg.K)
}

func renderMarkupLine(l markupLine) string {
	var b strings.Builder
	if l.Prefix != "" {
		b.WriteString(l.Prefix + ":" + strings.Repeat(" ", l.PreWS))
	}
	for _, s := range l.Segs {
		b.WriteString(renderSeg(s))
	}
	return b.String()
}

func propValue(p mprop) (markup.Value, error) {
	switch p.Kind {
	case "int":
		n, err := strconv.Atoi(p.Lit)
		return markup.Value{IntegerValue: n, ValueType: markup.ValueTypeInteger}, err
	case "float":
		f, err := strconv.ParseFloat(p.Lit, 64)
		return markup.Value{FloatValue: f, ValueType: markup.ValueTypeFloat}, err
	case "bool":
		return markup.Value{BoolValue: strings.EqualFold(p.Lit, "true"), ValueType: markup.ValueTypeBool}, nil
	case "quoted", "word":
		return markup.Value{StringValue: p.Lit, ValueType: markup.ValueTypeString}, nil
	}
	return markup.Value{}, fmt.Errorf("unknown property kind %q", p.Kind)
}

// displayValue is the documented display form of a property value inside replacement text.
func displayValue(v markup.Value) string {
	switch v.ValueType {
	case markup.ValueTypeInteger:
		return strconv.Itoa(v.IntegerValue)
	case markup.ValueTypeFloat:
		return strconv.FormatFloat(v.FloatValue, 'f', -1, 64)
	case markup.ValueTypeBool:
		if v.BoolValue {
			return "True"
		}
		return "False"
	}
	return v.StringValue
}

func segProps(seg mseg) (map[string]markup.Value, error) {
	m := map[string]markup.Value{}
	for i, p := range seg.Props {
		v, err := propValue(p)
		if err != nil {
			return nil, err
		}
		name := p.Name
		if i == 0 && seg.Short {
			name = seg.Name
		}
		m[name] = v
	}
	return m, nil
}

func replacementText(seg mseg, props map[string]markup.Value) (string, error) {
	value, ok := props["value"]
	if !ok {
		return "", fmt.Errorf("no value property")
	}
	var key string
	switch seg.K {
	case "select":
		key = displayValue(value)
	case "plural":
		key = "other"
		if value.ValueType == markup.ValueTypeInteger && value.IntegerValue == 1 {
			key = "one"
		}
	case "ordinal":
		n := value.IntegerValue
		key = "other"
		switch {
		case n%10 == 1 && n%100 != 11:
			key = "one"
		case n%10 == 2 && n%100 != 12:
			key = "two"
		case n%10 == 3 && n%100 != 13:
			key = "few"
		}
	}
	rep, ok := props[key]
	if !ok {
		return "", fmt.Errorf("no case %q", key)
	}
	// "%" stands for the value, "\%" for a literal percent sign
	text := strings.ReplaceAll(displayValue(rep), `\%`, "\x00")
	text = strings.ReplaceAll(text, "%", displayValue(value))
	return strings.ReplaceAll(text, "\x00", "%"), nil
}

// expectMarkup computes what parsing the rendered line must yield.
func expectMarkup(l markupLine) (markupExpect, error) {
	var out []rune
	var attrs []wantAttr
	type openMarker struct {
		name  string
		pos   int
		props map[string]markup.Value
	}
	var open []openMarker
	swallow := false // the next text chunk loses one leading whitespace rune
	precededByWSOrStart := func() bool {
		return len(out) == 0 || unicode.IsSpace(out[len(out)-1])
	}
	if l.Prefix != "" {
		out = append(out, []rune(l.Prefix+":"+strings.Repeat(" ", l.PreWS))...)
	}
	for _, seg := range l.Segs {
		switch seg.K {
		case "text":
			s := seg.S
			if swallow && s != "" {
				r, size := utf8.DecodeRuneInString(s)
				if unicode.IsSpace(r) {
					s = s[size:]
				}
			}
			out = append(out, []rune(s)...)
			swallow = false
			continue
		case "esc":
			out = append(out, []rune(seg.S)...)
		case "open", "self":
			props, err := segProps(seg)
			if err != nil {
				return markupExpect{}, err
			}
			trim := false
			if precededByWSOrStart() {
				trim = seg.K == "self"
				if tw, ok := props["trimwhitespace"]; ok {
					trim = tw.BoolValue
				}
			}
			if seg.K == "open" {
				open = append(open, openMarker{seg.Name, len(out), props})
			} else {
				attrs = append(attrs, wantAttr{seg.Name, len(out), 0, props})
			}
			swallow = trim
			continue
		case "close":
			idx := -1
			for i := range open {
				if open[i].name == seg.Name {
					idx = i
					break
				}
			}
			if idx < 0 {
				return markupExpect{}, fmt.Errorf("close of a marker that is not open: %s", seg.Name)
			}
			o := open[idx]
			open = append(open[:idx:idx], open[idx+1:]...)
			attrs = append(attrs, wantAttr{o.name, o.pos, len(out) - o.pos, o.props})
		case "closeall":
			for _, o := range open {
				attrs = append(attrs, wantAttr{o.name, o.pos, len(out) - o.pos, o.props})
			}
			open = nil
		case "select", "plural", "ordinal":
			props, err := segProps(seg)
			if err != nil {
				return markupExpect{}, err
			}
			rep, err := replacementText(seg, props)
			if err != nil {
				return markupExpect{}, err
			}
			if seg.Close == "" {
				// a self-closing replacement marker does not swallow the blank behind it - unless it says so itself
				trim := false
				if tw, ok := props["trimwhitespace"]; ok && precededByWSOrStart() {
					trim = tw.BoolValue
				}
				attrs = append(attrs, wantAttr{seg.K, len(out), 0, props})
				out = append(out, []rune(rep)...)
				swallow = trim
				continue
			} else {
				// open form: the enclosed source text is replaced, the attribute covers the replacement
				attrs = append(attrs, wantAttr{seg.K, len(out), utf8.RuneCountInString(rep), props})
				out = append(out, []rune(rep)...)
				if seg.Close == "all" {
					for _, o := range open {
						attrs = append(attrs, wantAttr{o.name, o.pos, len(out) - o.pos, o.props})
					}
					open = nil
				}
			}
		case "nomarkup":
			if seg.Close == "self" {
				attrs = append(attrs, wantAttr{"nomarkup", len(out), 0, map[string]markup.Value{}})
			} else {
				attrs = append(attrs, wantAttr{"nomarkup", len(out), utf8.RuneCountInString(seg.S), map[string]markup.Value{}})
				out = append(out, []rune(seg.S)...)
				if seg.Close == "all" {
					// [/] also closes everything that was open
					for _, o := range open {
						attrs = append(attrs, wantAttr{o.name, o.pos, len(out) - o.pos, o.props})
					}
					open = nil
				}
			}
		default:
			return markupExpect{}, fmt.Errorf("unknown segment kind %q", seg.K)
		}
		swallow = false
	}
	if len(open) != 0 {
		return markupExpect{}, fmt.Errorf("generator left markers open")
	}
	full := string(out)
	trimmed := strings.TrimSpace(full)
	lead := utf8.RuneCountInString(full) - utf8.RuneCountInString(strings.TrimLeftFunc(full, unicode.IsSpace))
	n := utf8.RuneCountInString(trimmed)
	clip := func(x int) int { return min(max(x-lead, 0), n) }
	for i := range attrs {
		s, e := clip(attrs[i].Pos), clip(attrs[i].Pos+attrs[i].Len)
		attrs[i].Pos, attrs[i].Len = s, e-s
	}
	exp := markupExpect{Text: trimmed, Attrs: attrs}
	if l.Prefix != "" {
		exp.CharacterDecided = true
		exp.Attrs = append(exp.Attrs, wantAttr{"character", 0, utf8.RuneCountInString(l.Prefix) + 1 + l.PreWS,
			map[string]markup.Value{"name": {StringValue: l.Prefix, ValueType: markup.ValueTypeString}}})
	} else if !strings.Contains(renderMarkupLine(l), ":") {
		exp.CharacterDecided = true // no colon anywhere: there must be no character attribute
	}
	return exp, nil
}

func valueEqual(a, b markup.Value) bool {
	if a.ValueType != b.ValueType {
		return false
	}
	switch a.ValueType {
	case markup.ValueTypeInteger:
		return a.IntegerValue == b.IntegerValue
	case markup.ValueTypeFloat:
		return math.Abs(a.FloatValue-b.FloatValue) <= 1e-12*math.Max(1, math.Abs(b.FloatValue))
	case markup.ValueTypeBool:
		return a.BoolValue == b.BoolValue
	}
	return a.StringValue == b.StringValue
}

func attrKey(name string, pos, length int, props map[string]markup.Value) string {
	keys := make([]string, 0, len(props))
	for k := range props {
		keys = append(keys, k)
	}
	sort.Strings(keys)
	var b strings.Builder
	fmt.Fprintf(&b, "%s@%d+%d", name, pos, length)
	for _, k := range keys {
		v := props[k]
		switch v.ValueType {
		case markup.ValueTypeInteger:
			fmt.Fprintf(&b, " %s=int:%d", k, v.IntegerValue)
		case markup.ValueTypeFloat:
			fmt.Fprintf(&b, " %s=float:%.9g", k, v.FloatValue)
		case markup.ValueTypeBool:
			fmt.Fprintf(&b, " %s=bool:%v", k, v.BoolValue)
		default:
			fmt.Fprintf(&b, " %s=str:%q", k, v.StringValue)
		}
	}
	return b.String()
}

// compareMarkup checks a parse result against the expectation (attributes as a multiset, order and
// SourcePosition ignored).
func compareMarkup(exp markupExpect, got *markup.ParseResult) string {
	if got.Text != exp.Text {
		return fmt.Sprintf("text = %q, want %q", got.Text, exp.Text)
	}
	want := map[string]int{}
	for _, a := range exp.Attrs {
		want[attrKey(a.Name, a.Pos, a.Len, a.Props)]++
	}
	have := map[string]int{}
	for _, a := range got.Attributes {
		if a.Name == "character" && !exp.CharacterDecided {
			continue
		}
		have[attrKey(a.Name, a.Position, a.Length, a.Properties)]++
	}
	var missing, extra []string
	for k, n := range want {
		if have[k] < n {
			missing = append(missing, k)
		}
	}
	for k, n := range have {
		if want[k] < n {
			extra = append(extra, k)
		}
	}
	sort.Strings(missing)
	sort.Strings(extra)
	if len(missing)+len(extra) > 0 {
		// float properties are compared with a tolerance: retry pairing the leftovers loosely
		if len(missing) == len(extra) && looseAttrMatch(exp, got) {
			return ""
		}
		return fmt.Sprintf("attributes differ: missing %v, unexpected %v (text %q)", missing, extra, got.Text)
	}
	return ""
}

func looseAttrMatch(exp markupExpect, got *markup.ParseResult) bool {
	used := make([]bool, len(got.Attributes))
	for _, w := range exp.Attrs {
		found := false
		for i, a := range got.Attributes {
			if used[i] || a.Name != w.Name || a.Position != w.Pos || a.Length != w.Len || len(a.Properties) != len(w.Props) {
				continue
			}
			ok := true
			for k, v := range w.Props {
				if gv, has := a.Properties[k]; !has || !valueEqual(gv, v) {
					ok = false
					break
				}
			}
			if ok {
				used[i], found = true, true
				break
			}
		}
		if !found {
			return false
		}
	}
	for i, a := range got.Attributes {
		if !used[i] && !(a.Name == "character" && !exp.CharacterDecided) {
			return false
		}
	}
	return true
}

// ---------------------------------------------------------------------------------------
// generator

var (
	markupNames   = []string{"a", "b", "i", "wave", "x1", "é", "日本", "shake_it", "B", "_tmp", "_"}
	markupTextBit = []string{"x", "hello", "wor ld", " ", "  ", "é", "日本語", "😀", "a:b", ".", ",", "!", "\t", " ", "tail ", " head", "José", "1", "%", "=", "/", "\"", "<", "{",
		// characters whose last UTF-8 byte is 0x85 or 0xA0 (NEL and NBSP when a byte is taken for a character), and wide blanks
		"voilà", "Š", "Р", "Å", "ą", "à ", "\u3000", "\u2003", "\u00a0", "\u0085", "x\u3000"}
	propNames    = []string{"p", "q", "size", "colour", "é", "n1", "trimwhitespace_", "v", "_k"}
	wordValues   = []string{"red", "big", "é", "x_1", "True1", "falsey", "nul", "falſe", "FALſE", "trUe1", "ﬁne", "Kelvin\u212a", "straße", "İx"}
	quotedValues = []string{"", "two words", "a]b", "[x]", "é 日", "it's", `say "hi"`, "100%", " padded "}
	intValues    = []string{"0", "1", "2", "3", "7", "11", "12", "13", "21", "22", "23", "42", "101", "111", "112", "007", "1000000", "2147483648", "4294967297", "9223372036854775807", "9223372036854775802", "9223372036854775711"}
	floatValues  = []string{"1.5", "1.05", "0.001", "3.14159", "10.50", "2.0", "0.5", "100.001", "7.25", "0.1"}
	boolValues   = []string{"true", "false", "True", "FALSE"}
)

func genMProp(t *rapid.T, name string) mprop {
	switch rapid.IntRange(0, 4).Draw(t, "pkind") {
	case 0:
		return mprop{name, "int", rapid.SampledFrom(intValues).Draw(t, "int")}
	case 1:
		return mprop{name, "float", rapid.SampledFrom(floatValues).Draw(t, "float")}
	case 2:
		return mprop{name, "bool", rapid.SampledFrom(boolValues).Draw(t, "bool")}
	case 3:
		return mprop{name, "quoted", rapid.SampledFrom(quotedValues).Draw(t, "quoted")}
	default:
		return mprop{name, "word", rapid.SampledFrom(wordValues).Draw(t, "word")}
	}
}

func genPads(t *rapid.T) []int {
	if rapid.IntRange(0, 2).Draw(t, "padded") != 0 {
		return nil
	}
	return rapid.SliceOfN(rapid.IntRange(0, 2), 0, 12).Draw(t, "pad")
}

func genMarkerProps(t *rapid.T, seg *mseg) {
	n := rapid.SampledFrom([]int{0, 0, 0, 1, 1, 2, 3}).Draw(t, "nprops")
	names := append([]string{}, propNames...)
	for i := 0; i < n; i++ {
		j := rapid.IntRange(0, len(names)-1).Draw(t, "pname")
		seg.Props = append(seg.Props, genMProp(t, names[j]))
		names = append(names[:j:j], names[j+1:]...)
	}
	if n > 0 && rapid.IntRange(0, 3).Draw(t, "short") == 0 {
		seg.Short = true
		seg.Props[0].Name = seg.Name
	}
	if rapid.IntRange(0, 7).Draw(t, "tw") == 0 {
		seg.Props = append(seg.Props, mprop{"trimwhitespace", "bool", rapid.SampledFrom([]string{"true", "false"}).Draw(t, "twv")})
	}
}

func genText(t *rapid.T) string {
	n := rapid.IntRange(1, 4).Draw(t, "bits")
	s := ""
	for i := 0; i < n; i++ {
		s += rapid.SampledFrom(markupTextBit).Draw(t, "bit")
	}
	return s
}

func genReplacement(t *rapid.T) mseg {
	switch rapid.IntRange(0, 3).Draw(t, "rep") {
	case 0:
		keys := []string{"m", "f", "nb", "1", "2", "True", "False"}
		k := rapid.IntRange(0, len(keys)-1).Draw(t, "key")
		seg := mseg{K: "select", Name: "select"}
		kind, lit := "word", keys[k]
		switch keys[k] {
		case "1", "2":
			kind = "int"
		case "True", "False":
			// a boolean value selects the case named by its display form
			kind, lit = "bool", strings.ToLower(keys[k])
		}
		seg.Props = append(seg.Props, mprop{"value", kind, lit})
		for _, key := range keys {
			seg.Props = append(seg.Props, mprop{key, "quoted", rapid.SampledFrom([]string{"he", "she", "they %", "[%]", "é", `50\% of %`, `%\`, `\%`}).Draw(t, "case")})
		}
		seg.Pad = genPads(t)
		genOpenForm(t, &seg)
		return seg
	case 1:
		seg := mseg{K: "plural", Name: "plural"}
		if rapid.IntRange(0, 4).Draw(t, "fl") == 0 {
			seg.Props = append(seg.Props, mprop{"value", "float", rapid.SampledFrom([]string{"1.5", "0.5", "2.25"}).Draw(t, "v")})
		} else {
			seg.Props = append(seg.Props, mprop{"value", "int", rapid.SampledFrom(intValues).Draw(t, "v")})
		}
		seg.Props = append(seg.Props, mprop{"one", "quoted", "% apple"}, mprop{"other", "quoted", rapid.SampledFrom([]string{"% apples", "apples", "%%", `%\`, `\% %`}).Draw(t, "o")})
		seg.Pad = genPads(t)
		genOpenForm(t, &seg)
		return seg
	case 2:
		seg := mseg{K: "ordinal", Name: "ordinal"}
		seg.Props = append(seg.Props, mprop{"value", "int", rapid.SampledFrom(intValues).Draw(t, "v")},
			mprop{"one", "quoted", "%st"}, mprop{"two", "quoted", "%nd"}, mprop{"few", "quoted", "%rd"}, mprop{"other", "quoted", "%th"})
		seg.Pad = genPads(t)
		genOpenForm(t, &seg)
		return seg
	default:
		seg := mseg{K: "nomarkup", Name: "nomarkup", Close: rapid.SampledFrom([]string{"name", "name", "all", "self"}).Draw(t, "close")}
		if seg.Close != "self" {
			seg.S = rapid.SampledFrom([]string{"raw", "[b]bold[/b]", "a [x /] b", "[/q] é", " spaced ", "日本 [wave]~[/wave]", ""}).Draw(t, "raw")
			if seg.Close == "name" {
				seg.Pad = genPads(t)
			}
		}
		return seg
	}
}

// genOpenForm turns a self-closing replacement marker into the open form closed by name or by [/] (one in three).
func genOpenForm(t *rapid.T, seg *mseg) {
	switch rapid.IntRange(0, 5).Draw(t, "openform") {
	case 0:
		seg.Close = "name"
	case 1:
		seg.Close = "all"
	default:
		return
	}
	seg.S = rapid.SampledFrom([]string{"x", "", "é [b]y[/b]", " pad ", "[/q]"}).Draw(t, "enclosed")
}

// genMarkupLine builds a line on which the property's statement is unambiguous (see DESIGN.md C13).
func genMarkupLine(t *rapid.T) markupLine {
	var l markupLine
	if rapid.IntRange(0, 3).Draw(t, "prefix") == 0 {
		l.Prefix = rapid.SampledFrom([]string{"Bob", "José", "日本", "Mr Smith", "A_1", "é"}).Draw(t, "name")
		l.PreWS = rapid.IntRange(1, 2).Draw(t, "prews")
	}
	n := rapid.IntRange(1, 10).Draw(t, "segs")
	var open []string
	prevWasText := false
	prevTextRunes := 0 // a marker that may swallow whitespace needs >= 2 runes of text before it (or the line start)
	for i := 0; i < n; i++ {
		first := len(l.Segs) == 0
		kind := rapid.IntRange(0, 13).Draw(t, "seg")
		if first && l.Prefix != "" {
			kind = 0 // the prefix is followed by plain text starting with a non-blank
		}
		switch {
		case kind <= 3:
			s := genText(t)
			if first && l.Prefix != "" {
				s = "w" + s
			}
			if prevWasText {
				continue
			}
			l.Segs = append(l.Segs, mseg{K: "text", S: s})
			prevWasText = true
			prevTextRunes = utf8.RuneCountInString(s)
			continue
		case kind == 4:
			l.Segs = append(l.Segs, mseg{K: "esc", S: rapid.SampledFrom([]string{"[", "]"}).Draw(t, "esc")})
		case kind <= 7:
			var free []string
			for _, nm := range markupNames {
				isOpen := false
				for _, o := range open {
					isOpen = isOpen || o == nm
				}
				if !isOpen {
					free = append(free, nm)
				}
			}
			if len(free) == 0 {
				continue
			}
			seg := mseg{K: "open", Name: rapid.SampledFrom(free).Draw(t, "name"), Pad: genPads(t)}
			genMarkerProps(t, &seg)
			if _, isTrim := findProp(seg, "trimwhitespace"); isTrim && !((prevWasText && prevTextRunes >= 2) || first) {
				seg.Props = seg.Props[:len(seg.Props)-1] // whitespace rule after a marker/escape: statement silent
			}
			l.Segs = append(l.Segs, seg)
			open = append(open, seg.Name)
		case kind <= 9:
			if len(open) == 0 {
				continue
			}
			j := rapid.IntRange(0, len(open)-1).Draw(t, "which")
			l.Segs = append(l.Segs, mseg{K: "close", Name: open[j], Pad: genPads(t)})
			open = append(open[:j:j], open[j+1:]...)
		case kind == 10:
			if len(open) == 0 {
				continue
			}
			l.Segs = append(l.Segs, mseg{K: "closeall", Pad: genPads(t)})
			open = nil
		case kind == 11:
			// self-closing markers only directly after text or at the very start: the whitespace rule is
			// documented for exactly those positions
			if !((prevWasText && prevTextRunes >= 2) || first) {
				continue
			}
			seg := mseg{K: "self", Name: rapid.SampledFrom(markupNames).Draw(t, "name"), Pad: genPads(t)}
			genMarkerProps(t, &seg)
			l.Segs = append(l.Segs, seg)
		default:
			seg := genReplacement(t)
			if seg.Close == "all" {
				open = nil
			}
			// (only behind at least two characters of text: of a single blank behind a swallowing marker nothing would be left,
			// and what "preceded by white space" means for a marker directly behind another marker is not stated)
			if n := len(l.Segs); prevWasText && n > 0 && l.Segs[n-1].K == "text" && utf8.RuneCountInString(l.Segs[n-1].S) >= 2 &&
				seg.Close == "" && seg.K != "nomarkup" && rapid.IntRange(0, 2).Draw(t, "reptrim") == 0 {
				seg.Props = append(seg.Props, mprop{"trimwhitespace", "bool", rapid.SampledFrom([]string{"true", "true", "false"}).Draw(t, "tw")})
			}
			l.Segs = append(l.Segs, seg)
		}
		prevWasText = false
	}
	// close what is still open
	for len(open) > 0 {
		if rapid.Bool().Draw(t, "closeall") {
			l.Segs = append(l.Segs, mseg{K: "closeall"})
			open = nil
		} else {
			j := rapid.IntRange(0, len(open)-1).Draw(t, "which")
			l.Segs = append(l.Segs, mseg{K: "close", Name: open[j]})
			open = append(open[:j:j], open[j+1:]...)
		}
	}
	return l
}

func findProp(seg mseg, name string) (mprop, bool) {
	for _, p := range seg.Props {
		if p.Name == name {
			return p, true
		}
	}
	return mprop{}, false
}
