//go:build verif

package harness

// C02 — expressions follow Yarn's operator table, precedence and short-circuiting.

import (
	"errors"
	"fmt"
	"math"
	"math/big"
	"sort"
	"strconv"
	"strings"
	"testing"

	"github.com/remieven/ysgo"
	"github.com/remieven/ysgo/variable"
	"pgregory.net/rapid"
)

type c02Case struct {
	E    *Expr           `json:"e"`
	Vars map[string]mval `json:"vars"`
}

func (c *c02Case) fix() {
	for k, v := range c.Vars {
		v.fix()
		c.Vars[k] = v
	}
}

// probeEnv is the model of the host functions registered by registerProbes.
type probeEnv struct {
	vars map[string]mval
	log  []string
	// numberOverridden: the host has registered its own number(): it adds 1000
	numberOverridden bool
}

func (p *probeEnv) lookup(name string) (mval, bool) { v, ok := p.vars[name]; return v, ok }

func (p *probeEnv) callFn(name string, args []mval) (mval, bool, error) {
	if name == "number" && p.numberOverridden {
		if len(args) != 1 || args[0].T != 'n' {
			return mval{}, false, evalErrf("unmodelled: the host's number of another type")
		}
		return numVal(args[0].N + 1000), true, nil
	}
	return probeCallSet(name, args, &p.log, func(name string, v mval) { p.vars[name] = v })
}

// probeCall implements pt/pf/pb/pn/ps for both the model and the real host functions.
func probeCall(name string, args []mval, log *[]string) (mval, bool, error) {
	return probeCallSet(name, args, log, nil)
}

// probeCallSet: setter, when not nil, is what the function "setvar" writes through.
func probeCallSet(name string, args []mval, log *[]string, setter func(name string, v mval)) (mval, bool, error) {
	show := func() string {
		parts := make([]string, len(args))
		for i, a := range args {
			parts[i] = a.String()
		}
		return name + "(" + strings.Join(parts, ",") + ")"
	}
	need := func(types string) error {
		if len(args) != len(types) {
			return evalErrf("%s: expected %d arguments, got %d", name, len(types), len(args))
		}
		for i := range types {
			if args[i].T != types[i] {
				return evalErrf("%s: argument %d is a %s", name, i, args[i].typeName())
			}
		}
		return nil
	}
	switch name {
	case "setvar":
		// a host function that writes a number variable in the runner's storer and returns the value written
		if len(args) != 2 || args[0].T != 's' || args[1].T != 'n' {
			return mval{}, false, evalErrf("setvar expects a name and a number")
		}
		if setter != nil {
			setter(args[0].S, args[1])
		}
		*log = append(*log, show())
		return args[1], true, nil
	case "number", "bool", "string":
		// C19: string/number/bool of a value already of that type return it unchanged (other argument types are not
		// modelled here: the case is discarded)
		if len(args) != 1 || args[0].T != map[string]byte{"number": 'n', "bool": 'b', "string": 's'}[name] {
			return mval{}, false, evalErrf("unmodelled: %s of another type", name)
		}
		return args[0], true, nil
	case "pt", "pf":
		if err := need("s"); err != nil {
			return mval{}, false, err
		}
		*log = append(*log, show())
		return boolVal(name == "pt"), true, nil
	case "pb":
		if err := need("sb"); err != nil {
			return mval{}, false, err
		}
		*log = append(*log, show())
		return args[1], true, nil
	case "pn":
		if err := need("sn"); err != nil {
			return mval{}, false, err
		}
		*log = append(*log, show())
		return args[1], true, nil
	case "ps":
		if err := need("ss"); err != nil {
			return mval{}, false, err
		}
		*log = append(*log, show())
		return args[1], true, nil
	}
	return mval{}, false, evalErrf("unknown function %s", name)
}

func toMval(v *variable.Value) mval {
	switch {
	case v == nil:
		return mval{}
	case v.Number != nil:
		return numVal(*v.Number)
	case v.Boolean != nil:
		return boolVal(*v.Boolean)
	case v.String != nil:
		return strVal(*v.String)
	}
	return mval{}
}

func fromMval(v mval) *variable.Value {
	switch v.T {
	case 'n':
		return variable.NewNumber(v.N)
	case 'b':
		return variable.NewBoolean(v.B)
	case 's':
		return variable.NewString(v.S)
	}
	return nil
}

func toMvals(args []*variable.Value) []mval {
	out := make([]mval, len(args))
	for i, a := range args {
		out[i] = toMval(a)
	}
	return out
}

// registerProbes registers the logging host functions on a runner.
func registerProbes(dr *ysgo.DialogueRunner, log *[]string) {
	for _, name := range []string{"pt", "pf", "pb", "pn", "ps"} {
		name := name
		dr.AddFunction(name, func(args []*variable.Value) (*variable.Value, error) {
			v, _, err := probeCall(name, toMvals(args), log)
			if err != nil {
				return nil, err
			}
			if name == "pn" || name == "pb" || name == "ps" {
				// like many host functions that hand a value through, the probe returns the very value it was given:
				// an evaluator that modifies a function result in place would modify the script's literal
				return args[1], nil
			}
			return fromMval(v), nil
		})
	}
}

func loadStore(st variable.Storer, vars map[string]mval) {
	names := make([]string, 0, len(vars))
	for k := range vars {
		names = append(names, k)
	}
	sort.Strings(names)
	for _, k := range names {
		switch v := vars[k]; v.T {
		case 'n':
			st.SetNumberValue(k, v.N)
		case 'b':
			st.SetBooleanValue(k, v.B)
		case 's':
			st.SetStringValue(k, v.S)
		}
	}
}

// keepingStorer keeps one *Value per variable and hands that pointer out.
type keepingStorer struct{ vals map[string]*variable.Value }

func (s *keepingStorer) GetValue(name string) (*variable.Value, bool) {
	v, ok := s.vals[name]
	return v, ok
}
func (s *keepingStorer) GetValues() map[string]variable.Value {
	out := map[string]variable.Value{}
	for k, v := range s.vals {
		out[k] = *v
	}
	return out
}
func (s *keepingStorer) Contains(name string) bool             { _, ok := s.vals[name]; return ok }
func (s *keepingStorer) SetNumberValue(name string, v float64) { s.vals[name] = variable.NewNumber(v) }
func (s *keepingStorer) SetBooleanValue(name string, v bool)   { s.vals[name] = variable.NewBoolean(v) }
func (s *keepingStorer) SetStringValue(name string, v string)  { s.vals[name] = variable.NewString(v) }
func (s *keepingStorer) Clear()                                { s.vals = map[string]*variable.Value{} }

func runC02(c c02Case) Verdict { return decideC02(c, false) }

// decideC02: with panicIsFailure the same comparison decides C06 for expressions (an ill-typed expression must be an
// error, never a panic).
func decideC02(c c02Case, panicIsFailure bool) Verdict {
	c.fix()
	// the same expression node is evaluated twice on one runner (the node jumps back to itself): the value of
	// an expression must not depend on its having been evaluated before
	src := "title: Start\n---\n{cap(" + printExpr(c.E, nil) + ")}\n<<jump Start>>\n===\n"
	expr := printExpr(c.E, nil)
	modelVars := map[string]mval{}
	for k, v := range c.Vars {
		modelVars[k] = v
	}
	env := &probeEnv{vars: modelVars}

	var storer variable.Storer = variable.NewInMemoryStorer()
	if len(expr)%3 == 1 {
		// a host storer that hands out the very values it keeps (the same pointer for the same variable every time)
		storer = &keepingStorer{vals: map[string]*variable.Value{}}
	}
	loadStore(storer, c.Vars)
	dr, err := ysgo.NewDialogueRunner(storer, "abc", strings.NewReader(src))
	if err != nil {
		return failf("script does not load: %v\n%s", err, src)
	}
	var log []string
	registerProbes(dr, &log)
	dr.AddFunction("setvar", func(args []*variable.Value) (*variable.Value, error) {
		v, _, err := probeCallSet("setvar", toMvals(args), &log, func(name string, v mval) { storer.SetNumberValue(name, v.N) })
		if err != nil {
			return nil, err
		}
		return fromMval(v), nil
	})
	var captured []mval
	dr.AddFunction("cap", func(args []*variable.Value) (*variable.Value, error) {
		captured = append(captured, toMvals(args)...)
		return variable.NewNumber(0), nil
	})
	isErr := false
	for round := 1; round <= 2; round++ {
		want, wantErr := evalExpr(c.E, env)
		if wantErr != nil && strings.HasPrefix(wantErr.Error(), "unmodelled") {
			return Verdict{Discard: "conversion built-in applied to another type (C19's business)"}
		}
		captured = nil
		var el *ysgo.DialogueElement
		var gotErr error
		var panicked any
		func() {
			defer func() { panicked = recover() }()
			el, gotErr = dr.Next(0)
		}()
		if panicked != nil {
			if wantErr != nil && !panicIsFailure {
				// whether faults panic is C06's business; here only "an error, never a value" matters
				return Verdict{Discard: "panic on an ill-typed expression (C06)"}
			}
			return failf("evaluating %s panicked (evaluation %d): %v", expr, round, panicked)
		}
		if wantErr != nil {
			isErr = true
			if gotErr == nil {
				return failf("%s must be an error (%v) but evaluated to %v (evaluation %d)", expr, wantErr, captured, round)
			}
		} else {
			if gotErr != nil {
				return failf("%s must evaluate to %v but failed (evaluation %d): %v", expr, want, round, gotErr)
			}
			if el == nil || el.Line == nil || len(captured) != 1 {
				return failf("%s: unexpected element %+v, captured %v (evaluation %d)", expr, el, captured, round)
			}
			if !sameVal(captured[0], want) {
				return failf("%s = %v, want %v (evaluation %d of the same expression on one runner; variables %v)", expr, captured[0], want, round, c.Vars)
			}
		}
		if strings.Join(log, ";") != strings.Join(env.log, ";") {
			return failf("%s: host functions were called as %v, want %v (evaluation %d)", expr, log, env.log, round)
		}
		if isErr {
			break // where the runner resumes after an error is not C02's business
		}
		if round == 1 && len(printExpr(c.E, nil))%2 == 0 {
			// between the two evaluations the host registers its own number(): from now on that is what number(...) calls
			dr.AddFunction("number", func(args []*variable.Value) (*variable.Value, error) {
				if len(args) != 1 || args[0].Number == nil {
					return nil, errors.New("the host's number() takes one number")
				}
				return variable.NewNumber(*args[0].Number + 1000), nil
			})
			env.numberOverridden = true
		}
	}
	return classifyC02(c.E, isErr)
}

func classifyC02(e *Expr, isErr bool) Verdict {
	levels := map[int]bool{}
	ops := 0
	probeRight := false
	var cls []string
	var walk func(e *Expr)
	walk = func(e *Expr) {
		switch e.K {
		case "bin":
			ops++
			levels[precOf(e.V)] = true
			cls = append(cls, "op="+e.V)
			if (e.V == "and" || e.V == "or") && containsCall(e.A[1]) {
				probeRight = true
			}
		case "neg", "not":
			ops++
			levels[6] = true
			cls = append(cls, "op="+e.K)
			if e.A[0].K == "bin" || (e.A[0].K == "par" && e.A[0].A[0].K == "bin") {
				cls = append(cls, "unary-over-binary")
			}
		}
		for _, a := range e.A {
			walk(a)
		}
	}
	walk(e)
	if isErr {
		cls = append(cls, "ill-typed")
	}
	if probeRight {
		cls = append(cls, "call-right-of-and-or")
	}
	return Verdict{NonTrivial: (ops >= 2 && len(levels) >= 2) || probeRight || isErr, Classes: cls}
}

func containsCall(e *Expr) bool {
	if e.K == "call" {
		return true
	}
	for _, a := range e.A {
		if containsCall(a) {
			return true
		}
	}
	return false
}

// ---------------------------------------------------------------------------------------
// generator

var c02VarPool = []string{"n1", "n2", "n3", "b1", "b2", "s1", "s2"}

func genNumberValue(t *rapid.T) float64 {
	switch rapid.IntRange(0, 10).Draw(t, "numkind") {
	case 10:
		return math.NaN()
	case 0:
		return rapid.SampledFrom([]float64{0, math.Copysign(0, -1), 1, -1, 2, 0.5, -0.5, 1e308, -1e308, 5e-324, math.Inf(1), math.Inf(-1), math.NaN(), math.MaxInt64, 1 << 53}).Draw(t, "special")
	case 1, 2, 3:
		return float64(rapid.IntRange(-20, 20).Draw(t, "small"))
	case 4, 5:
		return float64(rapid.IntRange(-2000, 2000).Draw(t, "milli")) / 8
	default:
		return rapid.Float64().Draw(t, "float")
	}
}

func genStringValue(t *rapid.T) string {
	return rapid.SampledFrom([]string{"", "a", "b", "ab", "a b", "é", "abc", "B", " ", "true", "1"}).Draw(t, "str")
}

type exprGen struct {
	t       *rapid.T
	probeID int
	illRate int // one in illRate nodes asks for a wrongly typed child (0: never)
}

func (g *exprGen) atom(want byte) *Expr {
	t := g.t
	switch want {
	case 'n':
		switch rapid.IntRange(0, 6).Draw(t, "natom") {
		case 0, 1:
			return num(rapid.SampledFrom([]string{"0", "1", "2", "3", "7", "10", "007", "010", "0451", "0100", "017", "08", "00012", "0.50", "1.50", "0.5", "2.25", "100", "123456789012345678901234567890", "0.1", "0.2",
				"0.3", "0.7", "0.9", "1.1", "4.35", "0.30000000000000004", "0.9999999999999999", "2.9999999999999996", "1.0000000000000002",
				"2147483648", "4294967296", "9007199254740991", "9007199254740992", "9007199254740993", "4611686018427387904",
				"9223372036854775807", "9223372036854775808", "18446744073709551615", "18446744073709551616", "36893488147419103232",
				"2" + strings.Repeat("0", 308), "17976931348623157" + strings.Repeat("0", 292), "0." + strings.Repeat("0", 330) + "1"}).Draw(t, "lit"))
		case 2, 3:
			return varRef(rapid.SampledFrom([]string{"n1", "n2", "n3"}).Draw(t, "var"))
		case 4:
			g.probeID++
			return call("pn", str(fmt.Sprint("p", g.probeID)), num(rapid.SampledFrom([]string{"0", "1", "2", "5", "0.5"}).Draw(t, "lit")))
		default:
			// host code that writes a variable in the middle of the expression: reads to its left saw the old value,
			// reads to its right see the new one
			return call("setvar", str(rapid.SampledFrom([]string{"n1", "n2", "n3"}).Draw(t, "target")), num(rapid.SampledFrom([]string{"0", "1", "9", "2.5", "100"}).Draw(t, "written")))
		}
	case 'b':
		switch rapid.IntRange(0, 5).Draw(t, "batom") {
		case 0, 1:
			return boolean(rapid.Bool().Draw(t, "lit"))
		case 2, 3:
			return varRef(rapid.SampledFrom([]string{"b1", "b2"}).Draw(t, "var"))
		default:
			g.probeID++
			return call(rapid.SampledFrom([]string{"pt", "pf"}).Draw(t, "probe"), str(fmt.Sprint("p", g.probeID)))
		}
	default:
		switch rapid.IntRange(0, 5).Draw(t, "satom") {
		case 0, 1, 2:
			return str(genStringValue(t))
		case 3, 4:
			return varRef(rapid.SampledFrom([]string{"s1", "s2"}).Draw(t, "var"))
		default:
			g.probeID++
			return call("ps", str(fmt.Sprint("p", g.probeID)), str(genStringValue(t)))
		}
	}
}

func (g *exprGen) gen(want byte, depth int) *Expr {
	t := g.t
	if g.illRate > 0 && rapid.IntRange(0, g.illRate-1).Draw(t, "ill") == 0 {
		want = rapid.SampledFrom([]byte{'n', 'b', 's'}).Draw(t, "wrongtype")
	}
	if depth <= 0 || rapid.IntRange(0, 3).Draw(t, "leaf") == 0 {
		return g.atom(want)
	}
	sp := rapid.IntRange(0, 2).Draw(t, "sp")
	withSp := func(e *Expr) *Expr { e.Sp = sp; return e }
	switch want {
	case 'n':
		switch rapid.IntRange(0, 7).Draw(t, "nshape") {
		case 0:
			return neg(g.gen('n', depth-1))
		case 1:
			return par(g.gen('n', depth-1))
		case 2:
			if rapid.Bool().Draw(t, "probe") {
				// a call among the arguments of a call
				g.probeID++
				return call("pn", str(fmt.Sprint("p", g.probeID)), g.gen('n', depth-1))
			}
			return call("number", g.gen('n', depth-1))
		default:
			op := rapid.SampledFrom([]string{"*", "/", "%", "+", "-"}).Draw(t, "op")
			return bin(op, g.gen('n', depth-1), g.gen('n', depth-1))
		}
	case 'b':
		switch rapid.IntRange(0, 9).Draw(t, "bshape") {
		case 0:
			return withSp(not(g.gen('b', depth-1)))
		case 1:
			if rapid.Bool().Draw(t, "conv") {
				return call("bool", g.gen('b', depth-1))
			}
			return par(g.gen('b', depth-1))
		case 2:
			// numbers that are very close: sums of decimal fractions against the decimal sum, neighbouring doubles
			op := rapid.SampledFrom([]string{"==", "!=", "<=", ">=", "<", ">"}).Draw(t, "op")
			l, r := genNearPair(t)
			return withSp(bin(op, l, r))
		case 3:
			op := rapid.SampledFrom([]string{"<=", ">=", "<", ">"}).Draw(t, "op")
			return withSp(bin(op, g.gen('n', depth-1), g.gen('n', depth-1)))
		case 4, 5:
			op := rapid.SampledFrom([]string{"==", "!="}).Draw(t, "op")
			ty := rapid.SampledFrom([]byte{'n', 'b', 's'}).Draw(t, "eqtype")
			return withSp(bin(op, g.gen(ty, depth-1), g.gen(ty, depth-1)))
		default:
			op := rapid.SampledFrom([]string{"and", "or", "xor"}).Draw(t, "op")
			return withSp(bin(op, g.gen('b', depth-1), g.gen('b', depth-1)))
		}
	default:
		switch rapid.IntRange(0, 4).Draw(t, "sshape") {
		case 0:
			return par(g.gen('s', depth-1))
		case 4:
			return call("string", g.gen('s', depth-1))
		default:
			return bin("+", g.gen('s', depth-1), g.gen('s', depth-1))
		}
	}
}

// genNearPair: two number expressions whose values are equal or differ by a few units in the last place.
func genNearPair(t *rapid.T) (*Expr, *Expr) {
	lit := func(f float64) *Expr {
		if f < 0 {
			return neg(num(strconv.FormatFloat(-f, 'f', -1, 64)))
		}
		return num(strconv.FormatFloat(f, 'f', -1, 64))
	}
	decimals := []string{"0.1", "0.2", "0.3", "0.7", "0.9", "1.1", "4.35", "0.15", "100", "3"}
	switch rapid.IntRange(0, 4).Draw(t, "near") {
	case 4:
		// the same variable, or the same probe result, on both sides (identity of the operands is not equality: NaN)
		v := rapid.SampledFrom([]string{"n1", "n2", "n3"}).Draw(t, "samevar")
		if rapid.Bool().Draw(t, "viaprobe") {
			return call("pn", str("same1"), varRef(v)), call("pn", str("same2"), varRef(v))
		}
		return varRef(v), varRef(v)
	case 0:
		// a + b against the sum computed in decimal
		a, b := rapid.SampledFrom(decimals).Draw(t, "a"), rapid.SampledFrom(decimals).Draw(t, "b")
		ra, _ := new(big.Rat).SetString(a)
		rb, _ := new(big.Rat).SetString(b)
		op := rapid.SampledFrom([]string{"+", "-", "*"}).Draw(t, "arith")
		var rc *big.Rat
		switch op {
		case "+":
			rc = new(big.Rat).Add(ra, rb)
		case "-":
			rc = new(big.Rat).Sub(ra, rb)
		default:
			rc = new(big.Rat).Mul(ra, rb)
		}
		c := strings.TrimRight(strings.TrimRight(rc.FloatString(6), "0"), ".")
		var r *Expr
		if strings.HasPrefix(c, "-") {
			r = neg(num(c[1:]))
		} else {
			r = num(c)
		}
		return bin(op, num(a), num(b)), r
	case 1:
		// neighbouring doubles
		x := rapid.SampledFrom([]float64{0.3, 1, 0.1, 2.5, 1e6, 1 << 40, 9007199254740992, 1e15, 123456.789, 1e-7, 4611686018427387904}).Draw(t, "x")
		y := x
		for k := rapid.IntRange(-3, 3).Draw(t, "ulps"); k != 0; {
			if k > 0 {
				y = math.Nextafter(y, math.Inf(1))
				k--
			} else {
				y = math.Nextafter(y, math.Inf(-1))
				k++
			}
		}
		if rapid.Bool().Draw(t, "negative") {
			x, y = -x, -y
		}
		return lit(x), lit(y)
	case 2:
		// repeated addition of a fraction against the whole
		n := rapid.IntRange(2, 10).Draw(t, "n")
		step := rapid.SampledFrom([]string{"0.1", "0.2", "0.7"}).Draw(t, "step")
		e := num(step)
		for i := 1; i < n; i++ {
			e = bin("+", e, num(step))
		}
		rs, _ := new(big.Rat).SetString(step)
		total := new(big.Rat).Mul(rs, big.NewRat(int64(n), 1))
		return e, num(strings.TrimRight(strings.TrimRight(total.FloatString(3), "0"), "."))
	default:
		// quotients and remainders that are almost whole
		a := rapid.SampledFrom([]string{"0.3", "0.9", "4.35", "1.1", "0.7"}).Draw(t, "a")
		b := rapid.SampledFrom([]string{"0.1", "0.3", "100", "10"}).Draw(t, "b")
		op := rapid.SampledFrom([]string{"/", "*", "%"}).Draw(t, "arith")
		return bin(op, num(a), num(b)), num(fmt.Sprint(rapid.IntRange(0, 9).Draw(t, "whole")))
	}
}

func genC02Vars(t *rapid.T) map[string]mval {
	return map[string]mval{
		"n1": numVal(genNumberValue(t)), "n2": numVal(genNumberValue(t)), "n3": numVal(genNumberValue(t)),
		"b1": boolVal(rapid.Bool().Draw(t, "b1")), "b2": boolVal(rapid.Bool().Draw(t, "b2")),
		"s1": strVal(genStringValue(t)), "s2": strVal(genStringValue(t)),
	}
}

func renderC02(c c02Case) any {
	c.fix()
	vars := map[string]string{}
	for k, v := range c.Vars {
		vars[k] = v.String()
	}
	return map[string]any{"expression": printExpr(c.E, nil), "vars": vars}
}

var c02Eval = Register(Prop[c02Case]{
	ID: "C02", Name: "eval",
	Gen: func(t *rapid.T) c02Case {
		g := &exprGen{t: t, illRate: 0}
		if rapid.IntRange(0, 2).Draw(t, "allow-ill") == 0 {
			g.illRate = 7
		}
		want := rapid.SampledFrom([]byte{'n', 'n', 'b', 'b', 'b', 's'}).Draw(t, "type")
		return c02Case{E: g.gen(want, rapid.IntRange(1, 5).Draw(t, "depth")), Vars: genC02Vars(t)}
	},
	Run: runC02, Render: renderC02,
})

func TestC02Eval(t *testing.T) { Check(t, c02Eval) }

// ---------------------------------------------------------------------------------------
// exhaustive small scopes

var c02Table = Register(Prop[c02Case]{ID: "C02", Name: "operator-table", Run: runC02, Render: renderC02})

func representative(ty byte) []*Expr {
	switch ty {
	case 'n':
		return []*Expr{num("7"), num("2"), varRef("n1"), num("0"), varRef("n2")}
	case 'b':
		return []*Expr{boolean(true), boolean(false), varRef("b1")}
	}
	return []*Expr{str("a"), str("b"), varRef("s1"), str("")}
}

var tableVars = map[string]mval{"n1": numVal(-3.5), "n2": numVal(math.Inf(1)), "n3": numVal(0), "b1": boolVal(true), "b2": boolVal(false), "s1": strVal("a"), "s2": strVal("é")}

func TestC02OperatorTable(t *testing.T) {
	Enumerate(t, c02Table, true, "every binary operator x every ordered pair of operand types x representative operand values x every spelling; both unary operators on every type",
		func(yield func(c02Case) bool) {
			for _, op := range binaryOps {
				for sp := range opSpellings[op] {
					for _, lt := range []byte{'n', 'b', 's'} {
						for _, rt := range []byte{'n', 'b', 's'} {
							for _, l := range representative(lt) {
								for _, r := range representative(rt) {
									e := bin(op, l, r)
									e.Sp = sp
									if !yield(c02Case{E: e, Vars: tableVars}) {
										return
									}
								}
							}
						}
					}
				}
			}
			for _, ty := range []byte{'n', 'b', 's'} {
				for _, x := range representative(ty) {
					for sp := 0; sp < 2; sp++ {
						n := not(x)
						n.Sp = sp
						if !yield(c02Case{E: n, Vars: tableVars}) || !yield(c02Case{E: neg(x), Vars: tableVars}) {
							return
						}
					}
				}
			}
		})
}

var c02Triples = Register(Prop[c02Case]{ID: "C02", Name: "precedence-triples", Run: runC02, Render: renderC02})

// byPrecedence builds the tree the precedence table prescribes for the unparenthesised chain a op1 b op2 c.
func byPrecedence(op1, op2 string, a, b, c *Expr, sp1, sp2 int) *Expr {
	var e *Expr
	if precOf(op1) >= precOf(op2) { // left-associative
		inner := bin(op1, a, b)
		inner.Sp = sp1
		e = bin(op2, inner, c)
		e.Sp = sp2
	} else {
		inner := bin(op2, b, c)
		inner.Sp = sp2
		e = bin(op1, a, inner)
		e.Sp = sp1
	}
	return e
}

func TestC02PrecedenceTriples(t *testing.T) {
	operands := map[byte][3]*Expr{
		'n': {num("7"), num("2"), num("3")},
		'b': {boolean(true), boolean(false), boolean(true)},
		's': {str("a"), str("b"), str("a")},
	}
	Enumerate(t, c02Triples, true, "every unparenthesised chain a op1 b op2 c over all operator pairs, operand type triples and spellings, plus unary operators in front of / inside binary operators; expected tree built from the precedence table",
		func(yield func(c02Case) bool) {
			types := []byte{'n', 'b', 's'}
			for _, op1 := range binaryOps {
				for _, op2 := range binaryOps {
					for _, ta := range types {
						for _, tb := range types {
							for _, tc := range types {
								for sp1 := range opSpellings[op1] {
									for sp2 := range opSpellings[op2] {
										e := byPrecedence(op1, op2, operands[ta][0], operands[tb][1], operands[tc][2], sp1, sp2)
										if strings.Contains(printExpr(e, nil), "(") {
											panic("printer added parentheses to a precedence-shaped tree: " + printExpr(e, nil))
										}
										if !yield(c02Case{E: e, Vars: tableVars}) {
											return
										}
									}
								}
							}
						}
					}
				}
			}
			// unary operators bind tighter than every binary operator, on either side
			for _, op := range binaryOps {
				for _, ty := range types {
					x, y := operands[ty][0], operands[ty][1]
					for _, un := range []func(*Expr) *Expr{neg, not} {
						for _, e := range []*Expr{bin(op, un(x), y), bin(op, x, un(y)), un(par(bin(op, x, y))), bin(op, un(un(x)), y)} {
							if !yield(c02Case{E: e, Vars: tableVars}) {
								return
							}
						}
					}
				}
			}
			// short-circuit: the right operand of a decided and/or is neither evaluated nor type-checked
			for _, op := range []string{"and", "or"} {
				for _, left := range []*Expr{boolean(true), boolean(false), call("pt", str("l")), call("pf", str("l"))} {
					for _, right := range []*Expr{call("pt", str("r")), call("pf", str("r")), num("1"), str("x"), bin("/", num("1"), str("x")), varRef("missing"), call("nosuchfn")} {
						if !yield(c02Case{E: bin(op, left, right), Vars: tableVars}) {
							return
						}
						if !yield(c02Case{E: bin("xor", boolean(true), bin(op, left, right)), Vars: tableVars}) {
							return
						}
					}
				}
			}
		})
}
