//go:build verif

package harness

// Native coverage-guided campaigns over rapid generators (thorough tier only).

import "testing"

func FuzzC02Eval(f *testing.F)      { DriveFuzz(f, c02Eval) }
func FuzzC04Rendering(f *testing.F) { DriveFuzz(f, c04Render) }
func FuzzC13Parse(f *testing.F)     { DriveFuzz(f, c13Parse) }
func FuzzC14Pure(f *testing.F)      { DriveFuzz(f, c14Pure) }
func FuzzC17Arguments(f *testing.F) { DriveFuzz(f, c17Args) }
func FuzzC03Histories(f *testing.F) { DriveFuzz(f, c03Hist) }
func FuzzC06Faults(f *testing.F)    { DriveFuzz(f, c06Faults) }
func FuzzC08Layouts(f *testing.F)   { DriveFuzz(f, c08Layout) }
func FuzzC01Flow(f *testing.F)      { DriveFuzz(f, c01Flow) }
