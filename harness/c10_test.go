//go:build verif

package harness

// C10 — pending commands: Next never blocks, resumes once, handlers run exactly once.

import (
	"errors"
	"fmt"
	"reflect"
	"runtime"
	"strconv"
	"strings"
	"sync"
	"testing"
	"time"

	"github.com/remieven/ysgo"
	"github.com/remieven/ysgo/variable"
	"pgregory.net/rapid"
)

type c10Cmd struct {
	Shape string `json:"shape"` // raw, chan, rchan, void, err
	Polls int    `json:"polls"` // waiting polls before the harness lets the command complete (0: complete on return)
	Fail  bool   `json:"fail"`  // completes with an error (shapes that can)
}

type c10Case struct {
	Cmds []c10Cmd `json:"cmds"`
	// NoTail: the last command is the last statement of the dialogue (nothing follows it)
	NoTail bool `json:"no_tail,omitempty"`
	// InOption: everything after the first line is the body of an option the host chooses, so that the first command is
	// what the choice leads to directly (the choice was consumed when the command started; it is not taken again on resume)
	InOption bool `json:"in_option,omitempty"`
	// Decoy: another runner of the process registers its own handlers under the same command names afterwards
	Decoy bool `json:"decoy,omitempty"`
}

type c10Harness struct {
	mu      sync.Mutex
	invoked []string
	probes  []string
	chans   map[int]chan error
	gates   map[int]chan struct{}
}

func (h *c10Harness) note(s string) {
	h.mu.Lock()
	h.invoked = append(h.invoked, s)
	h.mu.Unlock()
}

func (h *c10Harness) counts() (int, int) {
	h.mu.Lock()
	defer h.mu.Unlock()
	return len(h.invoked), len(h.probes)
}

type nextResult struct {
	el  *ysgo.DialogueElement
	err error
	p   any
}

// timedNext calls Next in its own goroutine so that a blocking Next is detected instead of hanging the check.
func timedNext(dr *ysgo.DialogueRunner, limit time.Duration) (nextResult, bool) {
	done := make(chan nextResult, 1)
	go func() {
		var r nextResult
		defer func() {
			r.p = recover()
			done <- r
		}()
		r.el, r.err = dr.Next(0)
	}()
	select {
	case r := <-done:
		return r, true
	case <-time.After(limit):
		return nextResult{}, false
	}
}

func (c c10Case) script() string {
	if !c.InOption {
		return c.plainScript()
	}
	plain := c.plainScript()
	body := strings.TrimSuffix(strings.TrimPrefix(plain, "title: Start\n---\nM0\n"), "===\n")
	var b strings.Builder
	b.WriteString("title: Start\n---\nM0\n-> go\n")
	for _, line := range strings.Split(strings.TrimSuffix(body, "\n"), "\n") {
		b.WriteString("    " + line + "\n")
	}
	b.WriteString("-> other\n    never shown\n    <<k0 wrong 99>>\n===\n")
	return b.String()
}

func (c c10Case) plainScript() string {
	var b strings.Builder
	b.WriteString("title: Start\n---\nM0\n")
	for i := range c.Cmds {
		if c.NoTail && i == len(c.Cmds)-1 {
			fmt.Fprintf(&b, "<<if true>>\n    <<k%d w%d %d>>\n<<endif>>\n", i, i, i+10)
			continue
		}
		fmt.Fprintf(&b, "<<k%d w%d %d>>\n<<set $done%d to pn(\"after%d\", %d)>>\nM%d\n", i, i, i+10, i, i, i, i+1)
	}
	b.WriteString("===\n")
	return b.String()
}

func runC10(c c10Case) Verdict {
	src := c.script()
	storer := newRecStorer()
	dr, err := ysgo.NewDialogueRunner(storer, "abc", strings.NewReader(src))
	if err != nil {
		return failf("script does not load: %v\n%s", err, src)
	}
	h := &c10Harness{chans: map[int]chan error{}, gates: map[int]chan struct{}{}}
	dr.AddFunction("pn", func(args []*variable.Value) (*variable.Value, error) {
		h.mu.Lock()
		h.probes = append(h.probes, showCall("pn", toMvals(args)))
		h.mu.Unlock()
		return args[1], nil
	})
	result := func(i int) error {
		if c.Cmds[i].Fail {
			return fmt.Errorf("boom%d", i)
		}
		return nil
	}
	for i, cmd := range c.Cmds {
		i, cmd := i, cmd
		name := fmt.Sprintf("k%d", i)
		newChan := func() chan error {
			ch := make(chan error, 1)
			if cmd.Polls == 0 {
				ch <- result(i)
			} else {
				h.mu.Lock()
				h.chans[i] = ch
				h.mu.Unlock()
			}
			return ch
		}
		gate := make(chan struct{})
		h.gates[i] = gate
		if cmd.Polls == 0 {
			close(gate)
		}
		var regErr error
		switch cmd.Shape {
		case "raw":
			dr.AddCommand(name, func(args []*variable.Value) <-chan error {
				h.note(showCall(name, toMvals(args)))
				return newChan()
			})
		case "chan":
			regErr = dr.ConvertAndAddCommand(name, func(s string, n int) chan error {
				h.note(fmt.Sprintf("%s(string(%q),number(%d))", name, s, n))
				return newChan()
			})
		case "rchan":
			regErr = dr.ConvertAndAddCommand(name, func(s string, n int) <-chan error {
				h.note(fmt.Sprintf("%s(string(%q),number(%d))", name, s, n))
				return newChan()
			})
		case "void":
			regErr = dr.ConvertAndAddCommand(name, func(s string, n int) {
				h.note(fmt.Sprintf("%s(string(%q),number(%d))", name, s, n))
				<-gate
			})
		case "err":
			regErr = dr.ConvertAndAddCommand(name, func(s string, n int) error {
				h.note(fmt.Sprintf("%s(string(%q),number(%d))", name, s, n))
				<-gate
				return result(i)
			})
		}
		if regErr != nil {
			return failf("registering the %s handler failed: %v", cmd.Shape, regErr)
		}
	}
	if c.Decoy {
		decoy, err := ysgo.NewDialogueRunner(nil, "abc", strings.NewReader(src))
		if err != nil {
			return failf("script does not load the second time: %v", err)
		}
		for i := range c.Cmds {
			name := fmt.Sprintf("k%d", i)
			decoy.AddCommand(name, func(args []*variable.Value) <-chan error {
				h.note("the handler of ANOTHER runner: " + showCall(name, toMvals(args)))
				ch := make(chan error, 1)
				ch <- nil
				return ch
			})
		}
	}
	defer func() { // never leave handler goroutines blocked
		for i, g := range h.gates {
			if c.Cmds[i].Polls != 0 {
				select {
				case <-g:
				default:
					close(g)
				}
			}
		}
	}()
	const limit = 10 * time.Second
	var history []string
	ctx := func() string {
		return fmt.Sprintf("\nscript:\n%s\ncommands %+v\nhistory of Next results: %v", src, c.Cmds, history)
	}
	next := func() (kind, text string, v *Verdict) {
		r, ok := timedNext(dr, limit)
		switch {
		case !ok:
			f := failf("Next did not return within %v although no command can have completed: it blocks%s", limit, ctx())
			return "", "", &f
		case r.p != nil:
			f := failf("Next panicked: %v%s", r.p, ctx())
			return "", "", &f
		case errors.Is(r.err, ysgo.ErrWaitingForCommandCompletion):
			kind = "wait"
		case r.err != nil:
			kind, text = "err", r.err.Error()
		case r.el == nil:
			kind = "end"
		case r.el.Line != nil:
			kind, text = "line", r.el.Line.Text
		default:
			kind = "other"
		}
		history = append(history, strings.TrimSpace(kind+" "+text))
		return kind, text, nil
	}
	if kind, text, v := next(); v != nil {
		return *v
	} else if kind != "line" || text != "M0" {
		return failf("unexpected first element %s %q%s", kind, text, ctx())
	}
	if c.InOption {
		if kind, text, v := next(); v != nil {
			return *v
		} else if kind != "other" {
			return failf("expected the option group after the first line, got %s %q%s", kind, text, ctx())
		}
	}
	pendingPolls := 0
	for i, cmd := range c.Cmds {
		canFail := cmd.Fail && cmd.Shape != "void"
		goroutineShape := cmd.Shape == "void" || cmd.Shape == "err"
		want := fmt.Sprintf("k%d(string(\"w%d\"),number(%d))", i, i, i+10)
		inv0, _ := h.counts()
		// the Next that starts the command
		kind, text, v := next()
		if v != nil {
			return *v
		}
		resumed := false
		checkStarted := func() *Verdict {
			h.mu.Lock()
			defer h.mu.Unlock()
			if len(h.invoked) != inv0+1 || h.invoked[inv0] != want {
				f := failf("command %d must invoke its handler exactly once as %s; invocations so far: %v%s", i, want, h.invoked, ctx())
				return &f
			}
			return nil
		}
		if cmd.Polls > 0 {
			if kind != "wait" {
				return failf("command %d (%s) has not completed, Next must report ErrWaitingForCommandCompletion, got %s %q%s", i, cmd.Shape, kind, text, ctx())
			}
			if !goroutineShape {
				if v := checkStarted(); v != nil {
					return *v
				}
			}
			for p := 1; p < cmd.Polls; p++ {
				invB, prB := h.counts()
				wrB := len(storer.writes())
				kind, text, v = next()
				if v != nil {
					return *v
				}
				if kind != "wait" {
					return failf("poll %d of command %d (%s), which has not completed, returned %s %q instead of ErrWaitingForCommandCompletion%s", p, i, cmd.Shape, kind, text, ctx())
				}
				invA, prA := h.counts()
				if goroutineShape && invB == inv0 {
					invB = invA // the handler's goroutine may start late; it must still start only once (checked below)
				}
				if invA != invB || prA != prB || len(storer.writes()) != wrB {
					return failf("a waiting poll had side effects (handler invocations %d->%d, function calls %d->%d, storer writes %d->%d)%s", invB, invA, prB, prA, wrB, len(storer.writes()), ctx())
				}
				pendingPolls++
			}
			// let it complete
			if goroutineShape {
				close(h.gates[i])
			} else {
				h.mu.Lock()
				ch := h.chans[i]
				h.mu.Unlock()
				if ch == nil {
					return failf("command %d: the handler was never asked for its channel%s", i, ctx())
				}
				ch <- result(i)
			}
		} else {
			// complete on return: the starting Next may already have gone on, or report waiting (asynchronous delivery)
			if kind != "wait" {
				resumed = true
			}
		}
		if !resumed {
			// completion has been reported (channel shapes: the value is in the channel): the next Next resumes.
			// goroutine shapes deliver asynchronously: bounded polling.
			for tries := 0; ; tries++ {
				kind, text, v = next()
				if v != nil {
					return *v
				}
				if kind != "wait" {
					break
				}
				if !goroutineShape && !(cmd.Polls == 0 && tries == 0) {
					return failf("command %d (%s) has reported completion, but Next still returns ErrWaitingForCommandCompletion%s", i, cmd.Shape, ctx())
				}
				if tries > 100000 {
					return failf("command %d (%s) was released but Next kept waiting for more than 100000 polls (20 s)%s", i, cmd.Shape, ctx())
				}
				time.Sleep(200 * time.Microsecond)
			}
		}
		if v := checkStarted(); v != nil {
			return *v
		}
		if canFail {
			if kind != "err" || !strings.Contains(text, fmt.Sprintf("boom%d", i)) {
				return failf("command %d completed with the error boom%d, Next returned %s %q%s", i, i, kind, text, ctx())
			}
			kind, text, v = next() // exactly once: the next call resumes after the command
			if v != nil {
				return *v
			}
		}
		if c.NoTail && i == len(c.Cmds)-1 {
			if kind != "end" {
				return failf("command %d is the last statement: after its completion the dialogue must end, got %s %q%s", i, kind, text, ctx())
			}
			if inv, _ := h.counts(); inv != len(c.Cmds) {
				return failf("%d handler invocations for %d command statements: %v%s", inv, len(c.Cmds), h.invoked, ctx())
			}
			return Verdict{NonTrivial: hasPending(c), Classes: []string{"pending-command-is-last-statement"}}
		}
		if kind != "line" || text != fmt.Sprintf("M%d", i+1) {
			return failf("after command %d the dialogue must resume at the statement after it and reach the line M%d, got %s %q%s", i, i+1, kind, text, ctx())
		}
		h.mu.Lock()
		probes := append([]string{}, h.probes...)
		h.mu.Unlock()
		if len(probes) != i+1 || probes[i] != fmt.Sprintf("pn(string(\"after%d\"),number(%d))", i, i) {
			return failf("the statement after command %d must have run exactly once by now; function calls: %v%s", i, probes, ctx())
		}
	}
	if kind, text, v := next(); v != nil {
		return *v
	} else if kind != "end" {
		return failf("expected the end of the dialogue, got %s %q%s", kind, text, ctx())
	}
	if inv, _ := h.counts(); inv != len(c.Cmds) {
		return failf("%d handler invocations for %d command statements: %v%s", inv, len(c.Cmds), h.invoked, ctx())
	}
	cls := []string{}
	for _, cmd := range c.Cmds {
		cls = append(cls, fmt.Sprintf("shape=%s polls=%d fail=%v", cmd.Shape, min(cmd.Polls, 2), cmd.Fail))
	}
	return Verdict{NonTrivial: pendingPolls >= 1 || hasPending(c), Classes: cls}
}

func hasPending(c c10Case) bool {
	for _, cmd := range c.Cmds {
		if cmd.Polls > 0 {
			return true
		}
	}
	return false
}

var c10Pending = Register(Prop[c10Case]{
	ID: "C10", Name: "pending",
	Gen: func(t *rapid.T) c10Case {
		n := rapid.IntRange(1, 5).Draw(t, "cmds")
		var c c10Case
		for i := 0; i < n; i++ {
			c.Cmds = append(c.Cmds, c10Cmd{
				Shape: rapid.SampledFrom([]string{"raw", "chan", "rchan", "void", "err"}).Draw(t, "shape"),
				Polls: rapid.SampledFrom([]int{0, 0, 1, 1, 2, 3, 4}).Draw(t, "polls"),
				Fail:  rapid.IntRange(0, 2).Draw(t, "fail") == 0,
			})
		}
		c.NoTail = rapid.IntRange(0, 3).Draw(t, "notail") == 0
		c.InOption = rapid.IntRange(0, 2).Draw(t, "inoption") == 0
		c.Decoy = rapid.IntRange(0, 3).Draw(t, "decoy") == 0
		return c
	},
	Run: runC10,
})

func TestC10Pending(t *testing.T) { Check(t, c10Pending) }

// every shape x schedule x result, alone and after/before another command
var c10Matrix = Register(Prop[c10Case]{ID: "C10", Name: "schedule-matrix", Run: runC10})

func TestC10ScheduleMatrix(t *testing.T) {
	Enumerate(t, c10Matrix, true, "every handler shape x polls in 0..3 x nil/error, alone, twice in a row, followed by an immediately completing command, as what a chosen option leads to, and next to another runner with handlers of the same names",
		func(yield func(c10Case) bool) {
			for _, shape := range []string{"raw", "chan", "rchan", "void", "err"} {
				for polls := 0; polls <= 3; polls++ {
					for _, fail := range []bool{false, true} {
						cmd := c10Cmd{Shape: shape, Polls: polls, Fail: fail}
						for _, c := range []c10Case{{Cmds: []c10Cmd{cmd}}, {Cmds: []c10Cmd{cmd}, NoTail: true}, {Cmds: []c10Cmd{{Shape: "raw"}, cmd}, NoTail: true}, {Cmds: []c10Cmd{cmd, cmd}}, {Cmds: []c10Cmd{cmd, {Shape: "raw"}}}, {Cmds: []c10Cmd{{Shape: "err", Polls: 1, Fail: true}, cmd}}} {
							if !yield(c) {
								return
							}
						}
					}
				}
			}
		})
}

// ---------------------------------------------------------------------------------------
// <<wait n>>

type c10WaitCase struct {
	Micros []int `json:"micros"` // durations of successive <<wait>> commands, in microseconds
	// AbandonAfter > 0: the first wait is started, abandoned after that many microseconds by restoring the snapshot taken
	// at the start, and the dialogue is run again from there: every wait of the second run lasts its full time as well
	AbandonAfter int `json:"abandon_after,omitempty"`
}

func runC10Wait(c c10WaitCase) Verdict {
	var b strings.Builder
	b.WriteString("title: Start\n---\nM0\n")
	for i, us := range c.Micros {
		fmt.Fprintf(&b, "<<wait %s>>\nM%d\n", strconv.FormatFloat(float64(us)/1e6, 'f', -1, 64), i+1)
	}
	b.WriteString("===\n")
	dr, err := ysgo.NewDialogueRunner(nil, "abc", strings.NewReader(b.String()))
	if err != nil {
		return failf("script does not load: %v\n%s", err, b.String())
	}
	atStart := dr.Snapshot()
	if r, ok := timedNext(dr, 10*time.Second); !ok || r.err != nil || r.el == nil {
		return failf("unexpected first element")
	}
	abandoned := false
	if c.AbandonAfter > 0 && c.AbandonAfter < c.Micros[0] {
		r, ok := timedNext(dr, 10*time.Second)
		if !ok || r.p != nil {
			return failf("Next blocked or panicked when starting <<wait>>: %v", r.p)
		}
		if errors.Is(r.err, ysgo.ErrWaitingForCommandCompletion) {
			time.Sleep(time.Duration(c.AbandonAfter) * time.Microsecond)
			if err := dr.RestoreAt(atStart); err != nil {
				return failf("RestoreAt failed while a wait was pending: %v", err)
			}
			if r, ok := timedNext(dr, 10*time.Second); !ok || r.err != nil || r.el == nil || r.el.Line == nil || r.el.Line.Text != "M0" {
				return failf("after restoring the snapshot taken at the start (a <<wait>> was pending), expected the line M0, got %+v / %v", r.el, r.err)
			}
			abandoned = true
		} else {
			return Verdict{Discard: "the first wait was over at once"}
		}
	}
	pending := 0
	for i, us := range c.Micros {
		want := time.Duration(us) * time.Microsecond
		secs := float64(us) / 1e6
		start := time.Now()
		var r nextResult
		var ok bool
		polls := 0
		for {
			r, ok = timedNext(dr, 10*time.Second)
			if !ok {
				return failf("Next blocked during <<wait %v>>", secs)
			}
			if r.p != nil {
				return failf("Next panicked during <<wait>>: %v", r.p)
			}
			if !errors.Is(r.err, ysgo.ErrWaitingForCommandCompletion) {
				break
			}
			polls++
			runtime.Gosched() // tight polling: the completion is observed as early as possible
			if time.Since(start) > 30*time.Second {
				return Verdict{Discard: "wait did not complete within 30 s (machine too slow?)"}
			}
		}
		elapsed := time.Since(start)
		if elapsed < want {
			note := ""
			if abandoned {
				note = fmt.Sprintf(" (an earlier <<wait %v>> of the same runner had been abandoned by RestoreAt %v after it started)", float64(c.Micros[0])/1e6, time.Duration(c.AbandonAfter)*time.Microsecond)
			}
			return failf("<<wait %v>> reported completion after %v, earlier than %v after it started%s", secs, elapsed, want, note)
		}
		if r.err != nil || r.el == nil || r.el.Line == nil || r.el.Line.Text != fmt.Sprintf("M%d", i+1) {
			return failf("after <<wait %v>> expected the line M%d, got %+v / %v", secs, i+1, r.el, r.err)
		}
		if polls > 0 {
			pending++
		}
	}
	cls := []string{fmt.Sprintf("waits=%d", len(c.Micros))}
	if abandoned {
		cls = append(cls, "first-wait-abandoned-by-restore")
	}
	return Verdict{NonTrivial: pending >= 1, Classes: cls}
}

var c10Wait = Register(Prop[c10WaitCase]{
	ID: "C10", Name: "wait",
	Gen: func(t *rapid.T) c10WaitCase {
		pool := []int{0, 300, 900, 1500, 2900, 5000, 10900, 20000, 30500, 50000, 80000, 120000, 250000}
		if tier() == "thorough" {
			pool = append(pool, 600000, 1001000, 1200000, 1500000)
		}
		c := c10WaitCase{Micros: rapid.SliceOfN(rapid.SampledFrom(pool), 1, 3).Draw(t, "micros")}
		if c.Micros[0] >= 10000 && rapid.IntRange(0, 2).Draw(t, "abandon") == 0 {
			c.AbandonAfter = c.Micros[0] * rapid.IntRange(2, 8).Draw(t, "tenths") / 10
		}
		return c
	},
	Run: runC10Wait,
})

func TestC10Wait(t *testing.T) { Check(t, c10Wait) }

// ---------------------------------------------------------------------------------------
// a pending command abandoned by RestoreAt: the next execution of the same statement is a new invocation with
// its own arguments, and the abandoned one still ran (once) with its own

type c10RestoreCase struct {
	Shape string `json:"shape"` // void, err, raw, chan
	Polls int    `json:"polls"` // polls before the restore
	// Done: the abandoned command has already reported completion ("nil" or "err") when the host restores, but no Next call
	// has taken notice of it yet ("" = it is still running)
	Done string `json:"done,omitempty"`
}

// runC10RestoreDone: the pending command reports completion - success or an error - and the host, instead of calling Next,
// restores a valid snapshot. The restore succeeds (the snapshot is valid), the run starts over, the abandoned command's
// outcome is nobody's business any more, and the statement's second execution is a new invocation that is waited for.
func runC10RestoreDone(c c10RestoreCase) Verdict {
	src := "title: Start\n---\nM0\n<<k {$n}>>\nM1\n<<jump Other>>\n===\ntitle: Other\n---\nM2\n===\n"
	storer := newRecStorer()
	storer.vals["n"] = numVal(1)
	dr, err := ysgo.NewDialogueRunner(storer, "abc", strings.NewReader(src))
	if err != nil {
		return failf("script does not load: %v", err)
	}
	var chans []chan error
	var invoked []string
	handler := func(n int) chan error {
		invoked = append(invoked, fmt.Sprintf("k(%d)", n))
		ch := make(chan error, 1)
		chans = append(chans, ch)
		return ch
	}
	if c.Shape == "raw" {
		dr.AddCommand("k", func(args []*variable.Value) <-chan error { return handler(int(*args[0].Number)) })
	} else if err := dr.ConvertAndAddCommand("k", handler); err != nil {
		return failf("registration failed: %v", err)
	}
	snap := dr.Snapshot()
	var history []string
	next := func() string {
		r, ok := timedNext(dr, 10*time.Second)
		switch {
		case !ok:
			history = append(history, "BLOCKED")
		case r.p != nil:
			history = append(history, fmt.Sprintf("PANIC %v", r.p))
		case errors.Is(r.err, ysgo.ErrWaitingForCommandCompletion):
			history = append(history, "wait")
		case r.err != nil:
			history = append(history, "err "+r.err.Error())
		case r.el == nil:
			history = append(history, "end")
		case r.el.Line != nil:
			history = append(history, "line "+r.el.Line.Text)
		default:
			history = append(history, "options")
		}
		return history[len(history)-1]
	}
	want := []string{"line M0"}
	for p := 0; p <= c.Polls; p++ {
		want = append(want, "wait")
	}
	for _, w := range want {
		if got := next(); got != w {
			return failf("before the restore: expected %q, got %q (history %v)", w, got, history)
		}
	}
	if len(chans) != 1 {
		return failf("the command statement ran once, its handler was invoked %d times", len(chans))
	}
	if c.Done == "err" {
		chans[0] <- errors.New("boom of the abandoned command")
	} else {
		chans[0] <- nil
	}
	if err := dr.RestoreAt(snap); err != nil {
		return failf("RestoreAt of a valid snapshot failed while a command that had just reported %q was pending: %v (history %v)", c.Done, err, history)
	}
	if again := dr.Snapshot(); again.CurrentNode != snap.CurrentNode || !reflect.DeepEqual(again.VisitedNodes, snap.VisitedNodes) {
		return failf("the snapshot taken right after the restore differs from the restored one: %+v vs %+v", again, snap)
	}
	storer.SetNumberValue("n", 2)
	if got := next(); got != "line M0" {
		return failf("after the restore the run starts over with the line M0, got %q (history %v)", got, history)
	}
	// the second execution of the statement: a new invocation, pending until the harness completes it
	if got := next(); got != "wait" {
		return failf("after the restore the command statement is executed again and is pending, got %q (history %v, invocations %v)", got, history, invoked)
	}
	if got := next(); got != "wait" {
		return failf("the second invocation has not completed, yet Next gave %q (history %v)", got, history)
	}
	if len(chans) != 2 || strings.Join(invoked, " ") != "k(1) k(2)" {
		return failf("two executions of the statement (n = 1, then 2): handler invocations %v", invoked)
	}
	chans[1] <- nil
	for _, w := range []string{"line M1", "line M2", "end", "end"} {
		if got := next(); got != w {
			return failf("after the second invocation completed: expected %q, got %q (history %v)", w, got, history)
		}
	}
	return Verdict{NonTrivial: true, Classes: []string{"shape=" + c.Shape, "abandoned-after-completion=" + c.Done}}
}

func runC10Restore(c c10RestoreCase) Verdict {
	if c.Done != "" {
		return runC10RestoreDone(c)
	}
	src := "title: Start\n---\nM0\n<<k {$w} {$n}>>\nM1\n===\n"
	storer := newRecStorer()
	storer.vals["w"], storer.vals["n"] = strVal("first"), numVal(1)
	dr, err := ysgo.NewDialogueRunner(storer, "abc", strings.NewReader(src))
	if err != nil {
		return failf("script does not load: %v", err)
	}
	var mu sync.Mutex
	var invoked []string
	var lateReads [][2]string
	gate := make(chan struct{})
	defer func() {
		select {
		case <-gate:
		default:
			close(gate)
		}
	}()
	note := func(s string, n int) {
		mu.Lock()
		invoked = append(invoked, fmt.Sprintf("k(%q,%d)", s, n))
		mu.Unlock()
	}
	var regErr error
	switch c.Shape {
	case "void":
		regErr = dr.ConvertAndAddCommand("k", func(s string, n int) { note(s, n); <-gate })
	case "err":
		regErr = dr.ConvertAndAddCommand("k", func(s string, n int) error { note(s, n); <-gate; return nil })
	case "chan":
		regErr = dr.ConvertAndAddCommand("k", func(s string, n int) chan error {
			note(s, n)
			ch := make(chan error, 1)
			go func() { <-gate; ch <- nil }()
			return ch
		})
	default:
		dr.AddCommand("k", func(args []*variable.Value) <-chan error {
			note(*args[0].String, int(*args[1].Number))
			seen := fmt.Sprintf("k(%q,%d)", *args[0].String, int(*args[1].Number))
			ch := make(chan error, 1)
			go func() {
				<-gate
				// the handler's goroutine reads its arguments again when it finishes: they are still the ones it was started with
				mu.Lock()
				lateReads = append(lateReads, [2]string{seen, fmt.Sprintf("k(%q,%d)", *args[0].String, int(*args[1].Number))})
				mu.Unlock()
				ch <- nil
			}()
			return ch
		})
	}
	if regErr != nil {
		return failf("registration failed: %v", regErr)
	}
	snap := dr.Snapshot()
	var history []string
	next := func() (string, *Verdict) {
		r, ok := timedNext(dr, 10*time.Second)
		switch {
		case !ok:
			v := failf("Next blocks (history %v)", history)
			return "", &v
		case r.p != nil:
			v := failf("Next panicked: %v (history %v)", r.p, history)
			return "", &v
		case errors.Is(r.err, ysgo.ErrWaitingForCommandCompletion):
			history = append(history, "wait")
		case r.err != nil:
			history = append(history, "err "+r.err.Error())
		case r.el == nil:
			history = append(history, "end")
		case r.el.Line != nil:
			history = append(history, "line "+r.el.Line.Text)
		}
		return history[len(history)-1], nil
	}
	expect := func(want string) *Verdict {
		got, v := next()
		if v != nil {
			return v
		}
		if got != want {
			f := failf("expected %q, got %q (history %v, handler invocations %v)", want, got, history, invoked)
			return &f
		}
		return nil
	}
	if v := expect("line M0"); v != nil {
		return *v
	}
	for p := 0; p <= c.Polls; p++ { // the starting call and the polls: all waiting
		if v := expect("wait"); v != nil {
			return *v
		}
	}
	// a restore that is refused (the snapshot names a node the dialogue does not have) changes nothing: the command is still pending
	if c.Polls%2 == 1 {
		if err := dr.RestoreAt(&ysgo.Snapshot{CurrentNode: "No Such Node", Variables: snap.Variables, VisitedNodes: snap.VisitedNodes}); err == nil {
			return failf("RestoreAt with an unknown node succeeded")
		}
		if v := expect("wait"); v != nil {
			f := failf("after a refused RestoreAt the pending command is no longer waited for: %s", v.Fail)
			return f
		}
	}
	// the host abandons the run: restore the start, other variable values
	if err := dr.RestoreAt(snap); err != nil {
		return failf("RestoreAt failed: %v", err)
	}
	storer.SetStringValue("w", "second")
	storer.SetNumberValue("n", 2)
	if v := expect("line M0"); v != nil {
		return *v
	}
	if v := expect("wait"); v != nil { // the same statement again: a new, pending invocation
		return *v
	}
	close(gate)
	for tries := 0; ; tries++ {
		got, v := next()
		if v != nil {
			return *v
		}
		if got != "wait" {
			if got != "line M1" {
				return failf("after the second invocation completed expected the line M1, got %q (history %v)", got, history)
			}
			break
		}
		if tries > 100000 {
			return failf("the released command never completed within 100000 polls (history %v)", history[max(0, len(history)-5):])
		}
		time.Sleep(200 * time.Microsecond)
	}
	// both invocations ran, each exactly once with the arguments of its own execution
	deadline := time.Now().Add(5 * time.Second)
	for {
		mu.Lock()
		got := strings.Join(invoked, " ")
		n := len(invoked)
		mu.Unlock()
		if n >= 2 || time.Now().After(deadline) {
			sortedGot := got
			if got == `k("second",2) k("first",1)` {
				sortedGot = `k("first",1) k("second",2)`
			}
			if sortedGot != `k("first",1) k("second",2)` {
				return failf("the command statement was executed twice (with w/n = first/1, then second/2); handler invocations: %s", got)
			}
			break
		}
		time.Sleep(time.Millisecond)
	}
	if c.Shape == "raw" {
		// both goroutines have finished by now (the gate is open): what they read at the end is what they were started with
		deadline := time.Now().Add(5 * time.Second)
		for {
			mu.Lock()
			reads := append([][2]string{}, lateReads...)
			mu.Unlock()
			for _, r := range reads {
				if r[0] != r[1] {
					return failf("an invocation started with the arguments %s reads %s from the same slice when it finishes (an abandoned invocation sees the arguments of a later command)", r[0], r[1])
				}
			}
			if len(reads) >= 2 || time.Now().After(deadline) {
				break
			}
			time.Sleep(time.Millisecond)
		}
	}
	return Verdict{NonTrivial: true, Classes: []string{"shape=" + c.Shape}}
}

var c10Restore = Register(Prop[c10RestoreCase]{
	ID: "C10", Name: "restore-while-pending",
	Gen: func(t *rapid.T) c10RestoreCase {
		c := c10RestoreCase{Shape: rapid.SampledFrom([]string{"void", "err", "raw", "chan"}).Draw(t, "shape"), Polls: rapid.IntRange(0, 3).Draw(t, "polls")}
		if (c.Shape == "raw" || c.Shape == "chan") && rapid.IntRange(0, 2).Draw(t, "completed") == 0 {
			c.Done = rapid.SampledFrom([]string{"nil", "err"}).Draw(t, "outcome")
		}
		return c
	},
	Run: runC10Restore,
})

func TestC10RestoreWhilePending(t *testing.T) { Check(t, c10Restore) }
