//go:build verif

package harness

// C17 — custom commands receive exactly the arguments written in the script.

import (
	"fmt"
	"math/big"
	"strings"
	"testing"
	"unicode"

	"github.com/remieven/ysgo"
	"github.com/remieven/ysgo/variable"
	"pgregory.net/rapid"
)

type c17Case struct {
	Name       string     `json:"name"`
	Words      []TextPart `json:"words"`  // arguments: literal word or {expression}
	Blanks     []int      `json:"blanks"` // blanks after "<<", between words and before ">>" (consumed in order, default 1 between words, 0 at the edges)
	Registered bool       `json:"registered"`
	Earlier    string     `json:"earlier,omitempty"` // a registration under the same name that the handler replaces: "", "raw", "converted"
	Decoy      bool       `json:"decoy,omitempty"`   // another runner of the process registers a handler under the same name afterwards
}

func (c c17Case) source() string {
	bi := 0
	blank := func(def int) string {
		n := def
		if bi < len(c.Blanks) {
			n = c.Blanks[bi]
		}
		bi++
		return strings.Repeat(" ", n)
	}
	var b strings.Builder
	b.WriteString("<<" + blank(0) + c.Name)
	for _, w := range c.Words {
		b.WriteString(" " + blank(0))
		if w.E != nil {
			b.WriteString("{" + printExpr(w.E, nil) + "}")
		} else {
			b.WriteString(w.S)
		}
	}
	b.WriteString(blank(0) + ">>")
	return b.String()
}

var c17Vars = map[string]mval{"n": numVal(2.5), "b": boolVal(true), "s": strVal("from var")}

type mapEnv map[string]mval

func (e mapEnv) lookup(name string) (mval, bool) { v, ok := e[name]; return v, ok }
func (e mapEnv) callFn(name string, args []mval) (mval, bool, error) {
	return mval{}, false, evalErrf("no functions here")
}

func runC17(c c17Case) Verdict {
	cmdSrc := c.source()
	// the node runs the command, changes the variables and jumps back to itself: the same command statement is
	// executed twice on one runner, the second time with other values of the variables
	src := "title: Start\n---\nbefore\n" + cmdSrc + "\nafter\n<<set $n to $n * 2 + 1>>\n<<set $b to not $b>>\n<<set $s to $s + \"?\">>\n<<jump Start>>\n===\n"
	vars := map[string]mval{}
	for k, v := range c17Vars {
		vars[k] = v
	}
	expectArgs := func() ([]mval, bool) {
		var want []mval
		for _, w := range c.Words {
			if w.E != nil {
				v, err := evalExpr(w.E, mapEnv(vars))
				if err != nil {
					return nil, false
				}
				want = append(want, v)
			} else {
				want = append(want, classifyCommandWord(w.S))
			}
		}
		return want, true
	}
	storer := variable.NewInMemoryStorer()
	loadStore(storer, vars)
	dr, err := ysgo.NewDialogueRunner(storer, "abc", strings.NewReader(src))
	if err != nil {
		return failf("a script with the command %s does not load: %v", cmdSrc, err)
	}
	var calls []string
	// the host keeps what it was given (a command queue worked off later, a log): the slices and values stay what they were
	type kept struct {
		args   []*variable.Value
		asSeen string
	}
	var keptArgs []kept
	handler := func(name string) ysgo.YarnSpinnerCommand {
		return func(args []*variable.Value) <-chan error {
			calls = append(calls, showCall(name, toMvals(args)))
			keptArgs = append(keptArgs, kept{args, showCall(name, toMvals(args))})
			ch := make(chan error, 1)
			ch <- nil
			return ch
		}
	}
	if c.Registered {
		// the handler registered under the name is the one registered last
		switch c.Earlier {
		case "raw":
			dr.AddCommand(c.Name, handler("earlier-raw-"+c.Name))
		case "converted":
			if err := dr.ConvertAndAddCommand(c.Name, func(a, b int) { calls = append(calls, fmt.Sprintf("earlier-converted-%s(%d,%d)", c.Name, a, b)) }); err != nil {
				return failf("ConvertAndAddCommand(func(int, int)) failed: %v", err)
			}
		}
		dr.AddCommand(c.Name, handler(c.Name))
	}
	if c.Decoy {
		// what the host registers on another runner is that runner's business (and an unregistered name stays unknown here)
		other, err := ysgo.NewDialogueRunner(nil, "abc", strings.NewReader(src))
		if err != nil {
			return failf("the script does not load the second time: %v", err)
		}
		other.AddCommand(c.Name, handler("the-handler-of-ANOTHER-runner-"+c.Name))
	}
	// decoys: a handler under "stop", under the keywords and under the built-in must never be used instead
	dr.AddCommand("stop", handler("stop"))
	for _, decoy := range []string{"if", "set", "jump", "call", "declare", "enum", "case", "local", "else", "endif", "elseif"} {
		if decoy != c.Name {
			dr.AddCommand(decoy, handler(decoy))
		}
	}
	h := &host{dr: dr, storer: newRecStorer()}
	cls := []string{}
	var want []mval
	for round := 1; round <= 2; round++ {
		var ok bool
		if want, ok = expectArgs(); !ok {
			return Verdict{Discard: "argument expression fails"}
		}
		calls = nil
		if ev := h.step(0); ev.K != "line" || ev.Text != "before" {
			return failf("unexpected element %s before the command (round %d) for\n%s", ev, round, src)
		}
		ev := h.step(0)
		if ev.K == "panic" {
			return failf("Next panicked on %s: %s", cmdSrc, ev.Text)
		}
		expected := showCall(c.Name, want)
		stop := false
		switch {
		case c.Name == "stop":
			if ev.K != "end" {
				return failf("%s must end the dialogue, got %s", cmdSrc, ev)
			}
			if len(calls) != 0 {
				return failf("%s was dispatched to a handler: %v", cmdSrc, calls)
			}
			cls = append(cls, "stop")
			stop = true
		case !c.Registered && c.Name != "wait":
			if ev.K != "err" {
				return failf("%s names an unregistered command and must fail, got %s (handlers called: %v)", cmdSrc, ev, calls)
			}
			if len(calls) != 0 {
				return failf("%s names an unregistered command but a handler was called: %v", cmdSrc, calls)
			}
			cls = append(cls, "unregistered")
			stop = true
		case !c.Registered:
			return Verdict{Discard: "the built-in wait (C10)"}
		default:
			if ev.K != "line" || ev.Text != "after" {
				return failf("%s (execution %d): expected the line after the command, got %s (handlers called: %v)", cmdSrc, round, ev, calls)
			}
			if len(calls) != 1 || calls[0] != expected {
				return failf("%s (execution %d of the same statement, variables %s): handler calls %v, want exactly [%s]", cmdSrc, round, showStore(vars), calls, expected)
			}
			cls = append(cls, "dispatched")
		}
		if stop {
			break
		}
		// what the script does before jumping back
		vars["n"] = numVal(vars["n"].N*2 + 1)
		vars["b"] = boolVal(!vars["b"].B)
		vars["s"] = strVal(vars["s"].S + "?")
	}
	for i, k := range keptArgs {
		name := k.asSeen[:strings.Index(k.asSeen, "(")]
		if now := showCall(name, toMvals(k.args)); now != k.asSeen {
			return failf("%s: the arguments of invocation %d were %s when the handler ran; the slice the handler kept reads %s after later commands ran", cmdSrc, i+1, k.asSeen, now)
		}
	}
	types := map[byte]bool{}
	for _, v := range want {
		types[v.T] = true
	}
	keywordPrefixed := false
	for _, kw := range []string{"if", "set", "jump", "call", "declare", "enum", "case", "local", "stop"} {
		if strings.HasPrefix(c.Name, kw) && c.Name != kw {
			keywordPrefixed = true
			cls = append(cls, "keyword-prefixed-name")
		}
	}
	for _, w := range c.Words {
		switch {
		case w.E != nil:
			cls = append(cls, "arg=expression")
		default:
			cls = append(cls, "arg="+classifyCommandWord(w.S).typeName())
		}
	}
	return Verdict{NonTrivial: (len(want) >= 2 && len(types) >= 2) || keywordPrefixed, Classes: cls}
}

var (
	c17Names = []string{"c0", "doit", "é_x", "Cmd9", "wait", "déjà", "Åsa", "だ酒", "iffy", "settings", "jumpy", "callme", "declared", "enumx", "casey", "localx", "stopper", "ifx", "setup", "wait_for_it", "x"}
	c17Plain = []string{"a", "word", "é", "日本", "voilà", "Åsa", "Š", "だ", "酒", "😅", "х", "Р", "x_1", "B", "to", "is", "and", "null", "$x", "a.b", "a,b", "(x)", "#t", "a:b", "1a", "-", "--x", "+5", "True", "FALSE", "nan", "NaN", "inf", "-inf",
		"Infinity", "1e5", "1E5", "0x10", "0x1p4", "1_0", "1.2.3", "truely", "falsehood", "if", "set", "stop", "else", "endif"}
	c17Nums = []string{"0", "1", "12", "007", "-1", "-0", "1.5", "-1.50", "0.001", "100000000000000000000", "3.14159", "-007.250"}
)

func genC17Word(t *rapid.T) TextPart {
	switch rapid.IntRange(0, 9).Draw(t, "word") {
	case 0, 1, 2:
		return TextPart{S: rapid.SampledFrom(c17Plain).Draw(t, "plain")}
	case 3, 4:
		return TextPart{S: rapid.SampledFrom(c17Nums).Draw(t, "num")}
	case 5:
		return TextPart{S: rapid.SampledFrom([]string{"true", "false"}).Draw(t, "bool")}
	case 6:
		if rapid.Bool().Draw(t, "unicode") {
			// letters from many scripts: every UTF-8 continuation byte occurs
			rs := rapid.SliceOfN(rapid.RuneFrom(nil, unicode.Latin, unicode.Cyrillic, unicode.Hiragana, unicode.Han, unicode.Greek), 1, 5).Draw(t, "runes")
			return TextPart{S: string(rs)}
		}
		return TextPart{S: rapid.StringMatching(`[a-zA-Z_é][a-zA-Z0-9_é]{0,6}`).Draw(t, "ident")}
	case 7:
		if rapid.IntRange(0, 2).Draw(t, "boundary") == 0 {
			return TextPart{S: genBoundaryDecimal(t)}
		}
		return TextPart{S: rapid.StringMatching(`-?[0-9]{1,4}(\.[0-9]{1,3})?`).Draw(t, "decimal")}
	default:
		return TextPart{E: rapid.SampledFrom([]*Expr{num("4"), bin("+", num("1"), num("2")), varRef("n"), boolean(false), varRef("b"), bin("<", varRef("n"), num("3")), str("two words"), varRef("s"),
			bin("+", varRef("s"), str("!")), neg(varRef("n")), str("12"), str("true"),
			neg(num("2")), neg(par(num("1.5"))), not(boolean(true)), neg(neg(num("3"))), bin("-", num("0"), num("2"))}).Draw(t, "expr")}
	}
}

// genBoundaryDecimal: decimal literals around powers of two (where integer fast paths change behaviour), optionally with
// a decimal point somewhere, a sign and leading zeros.
func genBoundaryDecimal(t *rapid.T) string {
	e := rapid.SampledFrom([]uint{8, 16, 24, 31, 32, 52, 53, 62, 63, 64, 65, 127, 128}).Draw(t, "exp")
	k := rapid.SampledFrom([]int64{1, 1, 2, 3, 5, 10}).Draw(t, "mult")
	d := rapid.Int64Range(-3, 40).Draw(t, "delta")
	v := new(big.Int).Lsh(big.NewInt(k), e)
	v.Add(v, big.NewInt(d))
	s := v.String()
	if rapid.IntRange(0, 3).Draw(t, "point") == 0 {
		at := rapid.IntRange(1, len(s)).Draw(t, "at")
		if at == len(s) {
			s += ".0"
		} else {
			s = s[:at] + "." + s[at:]
		}
	}
	if rapid.IntRange(0, 4).Draw(t, "zeros") == 0 {
		s = "00" + s
	}
	if rapid.IntRange(0, 3).Draw(t, "sign") == 0 {
		s = "-" + s
	}
	return s
}

var c17Args = Register(Prop[c17Case]{
	ID: "C17", Name: "arguments",
	Gen: func(t *rapid.T) c17Case {
		c := c17Case{Registered: rapid.IntRange(0, 7).Draw(t, "registered") != 0, Earlier: rapid.SampledFrom([]string{"", "", "", "raw", "converted"}).Draw(t, "earlier")}
		switch rapid.IntRange(0, 11).Draw(t, "namekind") {
		case 0:
			c.Name = "stop"
		case 1:
			c.Name = rapid.StringMatching(`[a-z][a-z0-9_]{0,7}`).Draw(t, "name")
			for _, bad := range []string{"else", "endif", "endenum"} { // known finding: excluded by construction
				if strings.HasPrefix(c.Name, bad) {
					c.Name = "x" + c.Name
				}
			}
			for _, kw := range []string{"if", "set", "jump", "call", "declare", "enum", "case", "local", "elseif", "wait"} {
				if c.Name == kw {
					c.Name += "_"
				}
			}
		default:
			c.Name = rapid.SampledFrom(c17Names).Draw(t, "name")
		}
		n := rapid.IntRange(0, 5).Draw(t, "nwords")
		for i := 0; i < n; i++ {
			c.Words = append(c.Words, genC17Word(t))
		}
		if rapid.Bool().Draw(t, "blanks") {
			c.Blanks = rapid.SliceOfN(rapid.IntRange(0, 2), 0, n+2).Draw(t, "blanks")
		}
		c.Decoy = rapid.IntRange(0, 3).Draw(t, "decoy") == 0
		return c
	},
	Run:    runC17,
	Render: func(c c17Case) any { return map[string]any{"command": c.source(), "registered": c.Registered} },
})

func TestC17Arguments(t *testing.T) { Check(t, c17Args) }

var c17Enum = Register(Prop[c17Case]{ID: "C17", Name: "word-table", Run: runC17, Render: func(c c17Case) any { return c.source() }})

func TestC17WordTable(t *testing.T) {
	Enumerate(t, c17Enum, true, "every word of the pools as only, first and last argument of every pooled command name",
		func(yield func(c17Case) bool) {
			words := append(append(append([]string{}, c17Plain...), c17Nums...), "true", "false")
			for _, name := range c17Names {
				for _, w := range words {
					for _, shape := range [][]TextPart{{{S: w}}, {{S: w}, {S: "mid"}, {E: num("1")}}, {{E: str("x")}, {S: w}}} {
						if !yield(c17Case{Name: name, Words: shape, Registered: true, Decoy: len(w)%2 == 0}) {
							return
						}
					}
				}
			}
		})
}

var _ = fmt.Sprint
