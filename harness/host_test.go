//go:build verif

package harness

// Driving the real runner: a recording storer, logging host functions/commands, and a trace recorder
// that mirrors what the reference interpreter emits.

import (
	"errors"
	"fmt"
	"io"
	"sort"
	"strings"
	"time"

	"github.com/remieven/ysgo"
	"github.com/remieven/ysgo/variable"
)

// recStorer is a host-side variable.Storer that logs every call.
type recStorer struct {
	vals map[string]mval
	log  []string
	mute bool
}

func newRecStorer() *recStorer { return &recStorer{vals: map[string]mval{}} }

func (s *recStorer) rec(format string, a ...any) {
	if !s.mute {
		s.log = append(s.log, fmt.Sprintf(format, a...))
	}
}

func (s *recStorer) GetValue(name string) (*variable.Value, bool) {
	s.rec("get %s", name)
	v, ok := s.vals[name]
	if !ok {
		return nil, false
	}
	return fromMval(v), true
}

func (s *recStorer) GetValues() map[string]variable.Value {
	s.rec("getall")
	out := make(map[string]variable.Value, len(s.vals))
	for k, v := range s.vals {
		out[k] = *fromMval(v)
	}
	return out
}

func (s *recStorer) Contains(name string) bool {
	s.rec("contains %s", name)
	_, ok := s.vals[name]
	return ok
}

func (s *recStorer) SetNumberValue(name string, v float64) {
	s.rec("set %s %s", name, numVal(v))
	s.vals[name] = numVal(v)
}

func (s *recStorer) SetBooleanValue(name string, v bool) {
	s.rec("set %s %s", name, boolVal(v))
	s.vals[name] = boolVal(v)
}

func (s *recStorer) SetStringValue(name string, v string) {
	s.rec("set %s %s", name, strVal(v))
	s.vals[name] = strVal(v)
}

func (s *recStorer) Clear() {
	s.rec("clear")
	s.vals = map[string]mval{}
}

func (s *recStorer) writes() []string {
	var out []string
	for _, l := range s.log {
		if strings.HasPrefix(l, "set ") || l == "clear" {
			out = append(out, l)
		}
	}
	return out
}

var _ variable.Storer = (*recStorer)(nil)

// host owns one real runner with the standard probes and commands registered.
type host struct {
	dr      *ysgo.DialogueRunner
	storer  *recStorer
	mem     *variable.InMemoryStorer // set instead of storer when the library's own storer is used
	fnLog   []string
	cmdLog  []string
	trace   []Ev
	lastOpt int // number of options of the last element (0 if it was not an option group)
	// holdPending: the <<hold>> command returns a channel that is never completed (else it completes at once)
	holdPending bool
	held        []chan error
	// onElement, when set, sees every element right after Next returned it (hosts that annotate what they receive)
	onElement func(el *ysgo.DialogueElement)
	// elementMode: what the host does with the elements it receives (they are its own). 1: it keeps them all and looks at
	// them again at every step - an element never changes after it was returned; 2: it overwrites them after reading them -
	// what it does to its elements never comes back in later ones.
	elementMode int
	keptEls     []keptElement
	scribbled   []*ysgo.DialogueElement
	// refusedOps: before every Next the host asks for things the API refuses with an error - a restore at a node the
	// script does not have, converting registrations of values that are not functions. A refused request changes nothing.
	refusedOps bool
}

type keptElement struct {
	live *ysgo.DialogueElement
	seen Ev
}

// evOf describes an element the way step records it.
func evOf(el *ysgo.DialogueElement) Ev {
	switch {
	case el == nil:
		return Ev{K: "end"}
	case el.Line != nil && el.Options == nil:
		return Ev{K: "line", Node: el.Node, Text: el.Line.Text, Tags: append([]string{}, el.Line.Tags...)}
	}
	ev := Ev{K: "opts", Node: el.Node}
	for _, o := range el.Options {
		if o.Line == nil {
			return Ev{K: "panic", Text: "option without a line"}
		}
		ev.Opts = append(ev.Opts, OptEv{Text: o.Line.Text, Tags: append([]string{}, o.Line.Tags...), Disabled: o.Disabled})
	}
	return ev
}

func scribbleElement(el *ysgo.DialogueElement) {
	el.Node = "scribbled by the host"
	mark := func(l *ysgo.Line) {
		if l == nil {
			return
		}
		l.Text = strings.ToUpper(l.Text) + " (scribbled by the host)"
		for i := range l.Tags {
			l.Tags[i] = "scribbled"
		}
		for i := range l.Attributes {
			l.Attributes[i].Position, l.Attributes[i].Length, l.Attributes[i].Name = -3, -3, "scribbled"
		}
	}
	mark(el.Line)
	for i := range el.Options {
		mark(el.Options[i].Line)
		el.Options[i].Disabled = !el.Options[i].Disabled
	}
}

func readers(srcs []string) []io.Reader {
	rs := make([]io.Reader, len(srcs))
	for i, s := range srcs {
		rs[i] = strings.NewReader(s)
	}
	return rs
}

// newHostInMemory is newHost with the library's InMemoryStorer instead of the recording one.
func newHostInMemory(srcs []string, seed string, vars map[string]mval) (*host, error) {
	h := &host{storer: newRecStorer(), mem: variable.NewInMemoryStorer()}
	fixed := map[string]mval{}
	for k, v := range vars {
		v.fix()
		fixed[k] = v
	}
	loadStore(h.mem, fixed)
	dr, err := ysgo.NewDialogueRunner(h.mem, seed, readers(srcs)...)
	if err != nil {
		return nil, err
	}
	h.dr = dr
	h.elementMode = elementModeFor(srcs)
	h.refusedOps = refusedOpsFor(srcs)
	h.register()
	decoyRunnerFor(srcs, seed)
	return h, nil
}

// decoyRunnerFor: next to a third of the hosts the process holds another runner of the same script, on which the host has
// registered functions and commands of its own under every name the script may use - the probes, the commands, the
// visit functions, the built-ins. What one runner was told is that runner's business: the runner under test never sees
// any of it. (The decoy is only created and told, never driven.)
func decoyRunnerFor(srcs []string, seed string) {
	n := 0
	for _, s := range srcs {
		n += len(s)
	}
	if (n/9)%3 != 0 {
		return
	}
	decoy, err := ysgo.NewDialogueRunner(nil, seed, readers(srcs)...)
	if err != nil {
		return
	}
	for _, name := range []string{"pt", "pf", "pb", "pn", "ps", "enter", "noret", "clamp", "visited", "visited_count", "string", "number", "bool", "round", "floor", "dice", "random", "random_range"} {
		decoy.AddFunction(name, func([]*variable.Value) (*variable.Value, error) {
			return variable.NewString("the function of ANOTHER runner"), nil
		})
	}
	for name := range modelCommands {
		decoy.AddCommand(name, func([]*variable.Value) <-chan error {
			ch := make(chan error, 1)
			ch <- errors.New("the command handler of ANOTHER runner")
			return ch
		})
	}
	decoy.AddCommand("wait", func([]*variable.Value) <-chan error { return make(chan error) })
}

// refusedOpsFor: a third of the hosts make refused requests between the steps.
func refusedOpsFor(srcs []string) bool {
	n := 0
	for _, s := range srcs {
		n += len(s)
	}
	return (n/3)%3 == 0
}

// elementModeFor: a third of the hosts keep their elements, a third overwrite them, a third just read them.
func elementModeFor(srcs []string) int {
	n := 0
	for _, s := range srcs {
		n += len(s)
	}
	return n % 3
}

func newHost(srcs []string, seed string, vars map[string]mval) (*host, error) {
	h := &host{storer: newRecStorer()}
	h.storer.mute = true
	names := make([]string, 0, len(vars))
	for k := range vars {
		names = append(names, k)
	}
	sort.Strings(names)
	for _, k := range names {
		v := vars[k]
		v.fix()
		h.storer.vals[k] = v
	}
	h.storer.mute = false
	dr, err := ysgo.NewDialogueRunner(h.storer, seed, readers(srcs)...)
	if err != nil {
		return nil, err
	}
	h.dr = dr
	h.elementMode = elementModeFor(srcs)
	h.refusedOps = refusedOpsFor(srcs)
	h.register()
	decoyRunnerFor(srcs, seed)
	return h, nil
}

// refusedRequests makes the requests the API refuses; it returns what went wrong ("" if all were refused without a panic).
func (h *host) refusedRequests() (problem string) {
	defer func() {
		if p := recover(); p != nil {
			problem = fmt.Sprintf("a request that must be refused panicked: %v", p)
		}
	}()
	if err := h.dr.RestoreAt(&ysgo.Snapshot{CurrentNode: "no such node (asked by the host)", VisitedNodes: map[string]int{"no such node (asked by the host)": 3}, Variables: map[string]variable.Value{"refused": *variable.NewNumber(1)}}); err == nil {
		return "RestoreAt at a node the script does not have succeeded"
	}
	if err := h.dr.ConvertAndAddFunction("refused_function", 5); err == nil {
		return "ConvertAndAddFunction accepted the number 5"
	}
	if err := h.dr.ConvertAndAddCommand("refused_command", nil); err == nil {
		return "ConvertAndAddCommand accepted nil"
	}
	return ""
}

func (h *host) register() {
	registerProbes(h.dr, &h.fnLog)
	h.dr.AddFunction("enter", func(args []*variable.Value) (*variable.Value, error) {
		if len(args) != 1 || args[0].String == nil {
			return nil, errors.New("enter expects one string")
		}
		h.fnLog = append(h.fnLog, fmt.Sprintf("enter(%s)@%d", *args[0].String, len(h.trace)))
		return nil, nil
	})
	h.dr.AddFunction("noret", func(args []*variable.Value) (*variable.Value, error) {
		h.fnLog = append(h.fnLog, "noret()")
		return nil, nil
	})
	// clamp: a host function that changes the value it is given, in place (only ever called with a bare variable). The value
	// is the function's own: neither the variable nor any checkpoint moves.
	h.dr.AddFunction("clamp", func(args []*variable.Value) (*variable.Value, error) {
		if len(args) == 1 && args[0].Number != nil {
			*args[0].Number = 1
		}
		return variable.NewNumber(0), nil
	})
	h.dr.AddFunction("eoferr", func(args []*variable.Value) (*variable.Value, error) {
		return nil, fmt.Errorf("reading the save file: %w", io.EOF)
	})
	h.dr.AddFunction("boom", func(args []*variable.Value) (*variable.Value, error) {
		panic("the host function panics")
	})
	h.dr.AddCommand("hold", func(args []*variable.Value) <-chan error {
		h.cmdLog = append(h.cmdLog, "hold()")
		if h.holdPending {
			ch := make(chan error)
			h.held = append(h.held, ch)
			return ch
		}
		ch := make(chan error, 1)
		ch <- nil
		return ch
	})
	for name := range modelCommands {
		name := name
		if name == "hold" {
			continue
		}
		h.dr.AddCommand(name, func(args []*variable.Value) <-chan error {
			h.cmdLog = append(h.cmdLog, showCall(name, toMvals(args)))
			ch := make(chan error, 1)
			ch <- nil
			return ch
		})
	}
}

func lineEv(node string, l *ysgo.Line) (string, []string) {
	return l.Text, l.Tags
}

// step calls Next once and records the element. A panic is recorded as an event of kind "panic".
func (h *host) step(arg int) Ev {
	var el *ysgo.DialogueElement
	var err error
	var panicked any
	if h.refusedOps {
		if problem := h.refusedRequests(); problem != "" {
			ev := Ev{K: "panic", Text: problem}
			h.trace = append(h.trace, ev)
			h.lastOpt = 0
			return ev
		}
	}
	func() {
		defer func() { panicked = recover() }()
		el, err = h.dr.Next(arg)
	}()
	var ev Ev
	h.lastOpt = 0
	if el != nil && h.onElement != nil && panicked == nil {
		h.onElement(el)
	}
	if h.elementMode == 1 && panicked == nil {
		for i, k := range h.keptEls {
			if now := evOf(k.live); !sameEv(now, k.seen) {
				changed := Ev{K: "panic", Text: fmt.Sprintf("the element returned by call %d was %s when it was returned; the host kept it, and after later calls it reads %s", i+1, k.seen, now)}
				h.trace = append(h.trace, changed)
				h.keptEls = nil
				return changed
			}
		}
		if el != nil && err == nil {
			h.keptEls = append(h.keptEls, keptElement{el, evOf(el)})
		}
	}
	switch {
	case panicked != nil:
		ev = Ev{K: "panic", Text: fmt.Sprint(panicked)}
	case errors.Is(err, ysgo.ErrWaitingForCommandCompletion):
		ev = Ev{K: "wait"}
	case err != nil:
		ev = Ev{K: "err", Text: err.Error()}
	case el == nil:
		ev = Ev{K: "end"}
	case el.Line != nil && el.Options == nil:
		ev = evOf(el)
	case el.Line == nil && el.Options != nil:
		ev = Ev{K: "opts", Node: el.Node}
		for _, o := range el.Options {
			if o.Line == nil {
				ev = Ev{K: "panic", Text: "option without a line"}
				break
			}
			ev.Opts = append(ev.Opts, OptEv{Text: o.Line.Text, Tags: append([]string{}, o.Line.Tags...), Disabled: o.Disabled})
		}
		h.lastOpt = len(el.Options)
	default:
		ev = Ev{K: "panic", Text: fmt.Sprintf("element with Line=%v and Options=%v", el.Line != nil, el.Options != nil)}
	}
	if h.elementMode == 2 && el != nil && panicked == nil && err == nil {
		// the host overwrites the elements it received earlier once more (they are its own): the one it has just been given
		// is another value and still reads what it read
		for _, old := range h.scribbled {
			scribbleElement(old)
		}
		if now := evOf(el); !sameEv(now, ev) {
			ev = Ev{K: "panic", Text: fmt.Sprintf("the element just returned read %s; after the host overwrote elements it had received EARLIER it reads %s", ev, now)}
			h.trace = append(h.trace, ev)
			h.scribbled = nil
			return ev
		}
		if len(h.scribbled) < 40 {
			h.scribbled = append(h.scribbled, el)
		}
	}
	h.trace = append(h.trace, ev)
	if h.elementMode == 2 && el != nil && panicked == nil && err == nil {
		scribbleElement(el)
	}
	return ev
}

// drive runs until the end, a panic, maxEv elements, or (when stopAtErr) the first error.
// choices are consumed like the reference interpreter does (k-th option group takes choices[k mod len] mod #options);
// junk, when non-empty, supplies the argument of Next whenever the previous element was not an option group.
func (h *host) drive(choices, junk []int, maxEv int, stopAtErr bool) {
	nchoice, njunk := 0, 0
	for len(h.trace) < maxEv {
		arg := 0
		if h.lastOpt > 0 {
			if len(choices) > 0 {
				arg = choices[nchoice%len(choices)]
			}
			nchoice++
			arg = ((arg % h.lastOpt) + h.lastOpt) % h.lastOpt
		} else if len(junk) > 0 {
			// no choice is pending (start, after a line, after an error): the argument is documented as ignored
			arg = junk[njunk%len(junk)]
			njunk++
		}
		ev := h.step(arg)
		for polls := 0; ev.K == "wait" && polls < 100000; polls++ {
			// a command that completes by itself (<<wait n>>, asynchronous handlers): not an element; poll again
			h.trace = h.trace[:len(h.trace)-1]
			time.Sleep(100 * time.Microsecond)
			ev = h.step(arg)
		}
		if ev.K == "end" || ev.K == "panic" || ev.K == "wait" || (ev.K == "err" && stopAtErr) {
			return
		}
	}
}

func (h *host) finalStore() map[string]mval {
	if h.mem != nil {
		out := map[string]mval{}
		for k, v := range h.mem.GetValues() {
			v := v
			out[k] = toMval(&v)
		}
		return out
	}
	out := map[string]mval{}
	for k, v := range h.storer.vals {
		out[k] = v
	}
	return out
}

func sameStore(a, b map[string]mval) string {
	keys := map[string]bool{}
	for k := range a {
		keys[k] = true
	}
	for k := range b {
		keys[k] = true
	}
	names := make([]string, 0, len(keys))
	for k := range keys {
		names = append(names, k)
	}
	sort.Strings(names)
	for _, k := range names {
		av, aok := a[k]
		bv, bok := b[k]
		if aok != bok {
			return fmt.Sprintf("$%s: present %v vs %v", k, aok, bok)
		}
		if !sameVal(av, bv) {
			return fmt.Sprintf("$%s: %v vs %v", k, av, bv)
		}
	}
	return ""
}

// stepTimed is step with a watchdog: a Next call that does not return is reported as an event of kind "hang"
// (the goroutine is left behind; the runner must not be used afterwards).
func stepTimed(h *host, arg int, limit time.Duration) Ev {
	done := make(chan Ev, 1)
	go func() { done <- h.step(arg) }()
	select {
	case ev := <-done:
		return ev
	case <-time.After(limit):
		return Ev{K: "hang"}
	}
}
