//go:build verif

package harness

// C19 — numeric and conversion built-ins satisfy their contracts for all numbers.

import (
	"fmt"
	"math"
	"math/big"
	"regexp"
	"strings"
	"testing"

	"github.com/remieven/ysgo"
	"github.com/remieven/ysgo/variable"
	"pgregory.net/rapid"
)

type c19Case struct {
	X mval   `json:"x"`
	N int    `json:"n"`
	B bool   `json:"b"`
	S string `json:"s"` // a string that is neither a number nor a boolean
	// Crowd: every call f($x) is written pick(f($y), f($x), f($z)) - three results of the same built-in alive at once, the
	// contracts are checked on the middle one. Decoy: another runner of the process has registered its own functions under
	// the names of all built-ins before this one is created (what a host does to one runner is that runner's business).
	Crowd bool `json:"crowd,omitempty"`
	Decoy bool `json:"decoy,omitempty"`
}

var c19Names = []string{"floor", "ceil", "inc", "dec", "integer", "decimal", "round", "round_places", "string", "number", "bool"}

var c19CrowdRe = regexp.MustCompile(`\b(floor|ceil|inc|dec|integer|decimal|round|string)\(\$x\)|\bround_places\(\$x, \$n\)`)

func c19Crowded(script string) string {
	return c19CrowdRe.ReplaceAllStringFunc(script, func(call string) string {
		return "pick(" + strings.Replace(call, "$x", "$y", 1) + ", " + call + ", " + strings.Replace(call, "$x", "$z", 1) + ")"
	})
}

var c19Script = "title: Start\n---\n" +
	`{cap("floor", floor($x))}{cap("ceil", ceil($x))}{cap("inc", inc($x))}{cap("dec", dec($x))}{cap("integer", integer($x))}{cap("decimal", decimal($x))}` +
	`{cap("round", round($x))}{cap("round_places", round_places($x, $n))}{cap("string", string($x))}{cap("roundtrip", number(string($x)))}` +
	`{cap("round_places-nested", round_places($x, integer(number(string($n)))))}{cap("floor-nested", floor(number(string($x))))}` +
	`{cap("number-id", number($x))}{cap("bool-roundtrip", bool(string($b)))}{cap("bool-id", bool($b))}{cap("string-id", string($s))}{cap("string-b", string($b))}` +
	"\n{cap(\"bad-number\", number($s))}\n{cap(\"bad-bool\", bool($s))}\ncross {number($b)} {bool($x)} {bool(number($b))}\nlast\n===\n"

// c19FailingFirst: every numeric built-in is first called with a string argument (an error, C06) on the same runner:
// the contracts hold for the calls that follow all the same.
var c19FailingFirst = "{floor($s)}\n{ceil($s)}\n{inc($s)}\n{dec($s)}\n{integer($s)}\n{decimal($s)}\n{round($s)}\n{round_places($s, $n)}\n{round_places($x)}\n"

func bigF(f float64) *big.Float { return new(big.Float).SetPrec(200).SetFloat64(f) }

func ulp(x float64) float64 {
	x = math.Abs(x)
	return math.Nextafter(x, math.Inf(1)) - x
}

func runC19(c c19Case) Verdict {
	c.X.fix()
	x := c.X.N
	if math.IsNaN(x) || math.IsInf(x, 0) || math.Abs(x) >= 1<<52 {
		return Verdict{Discard: "outside |x| < 2^52"}
	}
	storer := variable.NewInMemoryStorer()
	storer.SetNumberValue("x", x)
	storer.SetNumberValue("n", float64(c.N))
	storer.SetBooleanValue("b", c.B)
	storer.SetStringValue("s", c.S)
	storer.SetNumberValue("y", x+1.25)
	storer.SetNumberValue("z", -x*0.5-3)
	script := c19Script
	if c.Crowd {
		script = c19Crowded(script)
	}
	if c.B {
		script = strings.Replace(script, "---\n", "---\n"+c19FailingFirst, 1)
	}
	if c.Decoy {
		decoy, err := ysgo.NewDialogueRunner(nil, "abc", strings.NewReader("title: Decoy\n---\n{floor(1.5)}\n===\n"))
		if err != nil {
			return failf("decoy script does not load: %v", err)
		}
		for _, name := range c19Names {
			decoy.AddFunction(name, func([]*variable.Value) (*variable.Value, error) {
				return variable.NewString("the decoy runner's own function"), nil
			})
		}
		_ = decoy.ConvertAndAddFunction("floor", func(x float64) float64 { return x / 3 })
	}
	dr, err := ysgo.NewDialogueRunner(storer, "abc", strings.NewReader(script))
	if err != nil {
		return failf("script does not load: %v", err)
	}
	dr.AddFunction("pick", func(args []*variable.Value) (*variable.Value, error) {
		if len(args) != 3 {
			return nil, fmt.Errorf("pick expects three arguments")
		}
		return args[1], nil
	})
	got := map[string]mval{}
	dr.AddFunction("cap", func(args []*variable.Value) (*variable.Value, error) {
		if len(args) == 2 && args[0].String != nil {
			got[*args[0].String] = toMval(args[1])
		}
		return variable.NewString(""), nil
	})
	h := &host{dr: dr, storer: newRecStorer()}
	if c.B {
		for i := 0; i < 9; i++ {
			if ev := h.step(0); ev.K != "err" {
				return failf("ill-typed call %d of %q must be an error, got %s", i+1, c19FailingFirst, ev)
			}
		}
	}
	if ev := h.step(0); ev.K != "line" {
		return failf("x = %v (%s), n = %d: the built-ins failed: %s", x, c.X.NBits, c.N, ev)
	}
	num := func(label string) (float64, *Verdict) {
		v, ok := got[label]
		if !ok || v.T != 'n' {
			f := failf("x = %v: %s returned %v, not a number", x, label, v)
			return 0, &f
		}
		return v.N, nil
	}
	isInt := func(f float64) bool { return f == math.Trunc(f) && !math.IsInf(f, 0) }
	bad := func(format string, a ...any) Verdict {
		return failf("x = %v (bits %s), n = %d: %s", x, c.X.NBits, c.N, fmt.Sprintf(format, a...))
	}
	var f float64
	var fv *Verdict
	if f, fv = num("floor"); fv != nil {
		return *fv
	}
	if !(isInt(f) && f <= x && x < f+1) {
		return bad("floor(x) = %v violates floor(x) <= x < floor(x)+1", f)
	}
	if f, fv = num("ceil"); fv != nil {
		return *fv
	}
	if !(isInt(f) && f-1 < x && x <= f) {
		return bad("ceil(x) = %v violates ceil(x)-1 < x <= ceil(x)", f)
	}
	if f, fv = num("inc"); fv != nil {
		return *fv
	}
	if !(isInt(f) && f > x && f-1 <= x) {
		return bad("inc(x) = %v is not the least integer greater than x", f)
	}
	if f, fv = num("dec"); fv != nil {
		return *fv
	}
	if !(isInt(f) && f < x && f+1 >= x) {
		return bad("dec(x) = %v is not the greatest integer less than x", f)
	}
	integer, fv := num("integer")
	if fv != nil {
		return *fv
	}
	if !(isInt(integer) && math.Abs(integer) <= math.Abs(x) && math.Abs(x)-math.Abs(integer) < 1 && (integer == 0 || (integer > 0) == (x > 0))) {
		return bad("integer(x) = %v does not truncate towards zero", integer)
	}
	decimal, fv := num("decimal")
	if fv != nil {
		return *fv
	}
	if sum := new(big.Float).Add(bigF(integer), bigF(decimal)); sum.Cmp(bigF(x)) != 0 {
		return bad("integer(x) + decimal(x) = %v + %v is not x", integer, decimal)
	}
	r, fv := num("round")
	if fv != nil {
		return *fv
	}
	if d := new(big.Float).Abs(new(big.Float).Sub(bigF(r), bigF(x))); !isInt(r) || d.Cmp(big.NewFloat(0.5)) > 0 {
		return bad("round(x) = %v is not an integer within 0.5 of x", r)
	}
	rp, fv := num("round_places")
	if fv != nil {
		return *fv
	}
	half := new(big.Float).Quo(big.NewFloat(0.5).SetPrec(200), new(big.Float).SetPrec(200).SetInt(new(big.Int).Exp(big.NewInt(10), big.NewInt(int64(c.N)), nil)))
	tol := new(big.Float).Add(half, bigF(4*ulp(x)))
	if d := new(big.Float).Abs(new(big.Float).Sub(bigF(rp), bigF(x))); d.Cmp(tol) > 0 {
		return bad("round_places(x, n) = %v is further than half a unit of the n-th decimal place (+4 ulp) from x: |difference| = %s", rp, d.Text('g', 20))
	}
	if nested, fv := num("round_places-nested"); fv != nil {
		return *fv
	} else if math.Float64bits(nested) != math.Float64bits(rp) {
		return bad("round_places(x, integer(number(string(n)))) = %v, round_places(x, n) = %v", nested, rp)
	}
	if rt, fv := num("roundtrip"); fv != nil {
		return *fv
	} else if rt != x {
		return bad("number(string(x)) = %v, string(x) = %v", rt, got["string"])
	}
	if id, fv := num("number-id"); fv != nil {
		return *fv
	} else if math.Float64bits(id) != math.Float64bits(x) {
		return bad("number(x) = %v is not x", id)
	}
	if v := got["bool-roundtrip"]; v.T != 'b' || v.B != c.B {
		return bad("bool(string(%v)) = %v", c.B, v)
	}
	if v := got["bool-id"]; v.T != 'b' || v.B != c.B {
		return bad("bool(%v) = %v", c.B, v)
	}
	if v := got["string-id"]; v.T != 's' || v.S != c.S {
		return bad("string(%q) = %v", c.S, v)
	}
	if v := got["string-b"]; v.T != 's' {
		return bad("string(%v) = %v is not a string", c.B, v)
	}
	// strings that are neither numbers nor booleans do not convert
	if ev := h.step(0); ev.K != "err" {
		return bad("number(%q) must be an error, got %s (captured %v)", c.S, ev, got["bad-number"])
	}
	if ev := h.step(0); ev.K != "err" {
		return bad("bool(%q) must be an error, got %s (captured %v)", c.S, ev, got["bad-bool"])
	}
	// conversions across types (a boolean to a number, a number to a boolean): what they give is not stated - a value or an
	// error, never a panic
	if ev := h.step(0); ev.K != "line" && ev.K != "err" {
		return bad("number(%v), bool(x): %s", c.B, ev)
	}
	if ev := h.step(0); ev.K != "line" || ev.Text != "last" {
		return bad("after the two failing conversions the dialogue did not continue: %s", ev)
	}
	frac := x - math.Trunc(x)
	cls := []string{}
	nearInt := x != math.Trunc(x) && (math.Nextafter(x, math.Inf(1)) == math.Ceil(x) || math.Nextafter(x, math.Inf(-1)) == math.Floor(x))
	switch {
	case x == math.Trunc(x):
		cls = append(cls, "integer")
	case math.Abs(frac) == 0.5:
		cls = append(cls, "half-way")
	case nearInt:
		cls = append(cls, "adjacent-to-integer")
	default:
		cls = append(cls, "fractional")
	}
	if x < 0 {
		cls = append(cls, "negative")
	}
	if x == 0 && math.Signbit(x) {
		cls = append(cls, "negative-zero")
	}
	if c.Crowd {
		cls = append(cls, "three-results-alive")
	}
	if c.Decoy {
		cls = append(cls, "decoy-runner")
	}
	return Verdict{NonTrivial: x != math.Trunc(x), Classes: cls}
}

func genC19X(t *rapid.T) float64 {
	switch rapid.IntRange(0, 9).Draw(t, "xkind") {
	case 0:
		return float64(rapid.Int64Range(-(1<<52)+1, (1<<52)-1).Draw(t, "int"))
	case 1:
		return float64(rapid.Int64Range(-(1<<51), (1<<51)-1).Draw(t, "k")) + 0.5
	case 2:
		k := float64(rapid.Int64Range(-(1<<40), 1<<40).Draw(t, "k"))
		dir := rapid.SampledFrom([]float64{math.Inf(1), math.Inf(-1)}).Draw(t, "dir")
		return math.Nextafter(k, dir)
	case 3:
		return rapid.SampledFrom([]float64{0, math.Copysign(0, -1), 0.5, -0.5, 1.5, -1.5, 2.5, -2.5, 0.49999999999999994, -0.49999999999999994, 5e-324, -5e-324, 1<<52 - 0.5, -(1<<52 - 0.5),
			0.1, 0.2, 0.3, 1.005, 2.675, 1.45, -1.45, 10.234567, 4503599627370495.5, 0.000001, 123456.789}).Draw(t, "special")
	case 4:
		d := rapid.IntRange(0, 9).Draw(t, "digits")
		return float64(rapid.Int64Range(-1e12, 1e12).Draw(t, "k")) / math.Pow10(d)
	case 5, 6:
		// random sign / exponent / mantissa below 2^52
		exp := rapid.IntRange(-60, 51).Draw(t, "exp")
		mant := rapid.Float64Range(1, 2).Draw(t, "mant")
		if mant >= 2 {
			mant = 1
		}
		v := math.Ldexp(mant, exp)
		if rapid.Bool().Draw(t, "neg") {
			v = -v
		}
		return v
	default:
		return rapid.Float64Range(-1e6, 1e6).Draw(t, "plain")
	}
}

var c19Builtins = Register(Prop[c19Case]{
	ID: "C19", Name: "builtins",
	Gen: func(t *rapid.T) c19Case {
		return c19Case{X: numVal(genC19X(t)), N: rapid.IntRange(0, 8).Draw(t, "n"), B: rapid.Bool().Draw(t, "b"),
			S:     rapid.SampledFrom([]string{"abc", "", "12abc", "--1", "1,5", "one", "maybe", "yes", "tru", "é", " ", "1 2"}).Draw(t, "s"),
			Crowd: rapid.IntRange(0, 2).Draw(t, "crowd") == 0, Decoy: rapid.IntRange(0, 3).Draw(t, "decoy") == 0}
	},
	Run: runC19,
	Render: func(c c19Case) any {
		c.X.fix()
		return map[string]any{"x": fmt.Sprintf("%v (bits %s)", c.X.N, c.X.NBits), "n": c.N, "b": c.B, "s": c.S, "three_results_alive": c.Crowd, "decoy_runner": c.Decoy}
	},
})

func TestC19Builtins(t *testing.T) { Check(t, c19Builtins) }

var c19Sweep = Register(Prop[c19Case]{ID: "C19", Name: "sweep", Run: runC19, Render: c19Builtins.Render})

func TestC19Sweep(t *testing.T) {
	limit := envInt("VERIF_C19_SWEEP", 2000)
	Enumerate(t, c19Sweep, true, fmt.Sprintf("every k+0.5, k-ulp, k+ulp and k for |k| <= %d, every power of two 2^-60..2^51 with both signs and its neighbours, every n in 0..8 on a rotating basis; every fifth case with three results of each built-in alive at once, every seventh next to a decoy runner", limit),
		func(yield func(c19Case) bool) {
			i := 0
			emit := func(x float64) bool {
				i++
				return yield(c19Case{X: numVal(x), N: i % 9, B: i%2 == 0, S: "abc", Crowd: i%5 == 0, Decoy: i%7 == 0})
			}
			for k := -limit; k <= limit; k++ {
				f := float64(k)
				for _, x := range []float64{f, f + 0.5, math.Nextafter(f, math.Inf(1)), math.Nextafter(f, math.Inf(-1))} {
					if !emit(x) {
						return
					}
				}
			}
			for e := -60; e <= 51; e++ {
				p := math.Ldexp(1, e)
				for _, x := range []float64{p, -p, math.Nextafter(p, 0), math.Nextafter(p, math.Inf(1)), -math.Nextafter(p, 0), p * 1.5, -p * 1.5} {
					if math.Abs(x) < 1<<52 && !emit(x) {
						return
					}
				}
			}
		})
}
