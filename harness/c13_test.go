//go:build verif

package harness

// C13 — markup parsing recovers the plain text and exactly the enclosed ranges.
// C14 — markup parsing is a pure function of the line.
// C15 — markup parsing is total and its results are safe to use.

import (
	"fmt"
	"math/big"
	"reflect"
	"sort"
	"strings"
	"testing"
	"time"
	"unicode/utf8"

	"github.com/remieven/ysgo"
	"github.com/remieven/ysgo/markup"
	"pgregory.net/rapid"
)

// ---------------------------------------------------------------------------------------
// C13

// markupTimeout: ParseMarkup is given this long before the check declares that it does not terminate (a line of at
// most a few hundred bytes parses in microseconds). The stuck goroutine is abandoned.
const markupTimeout = 10 * time.Second

type markupOutcome struct {
	res      *markup.ParseResult
	err      error
	panicked any
}

// parseTimed runs ParseMarkup on p in its own goroutine so that a parse that never returns is reported, not waited for.
func parseTimed(p *markup.LineParser, input string) (markupOutcome, bool) {
	done := make(chan markupOutcome, 1)
	go func() {
		var o markupOutcome
		defer func() {
			o.panicked = recover()
			done <- o
		}()
		o.res, o.err = p.ParseMarkup(input)
	}()
	select {
	case o := <-done:
		return o, true
	case <-time.After(markupTimeout):
		return markupOutcome{}, false
	}
}

func parseFresh(input string) (res *markup.ParseResult, err error, panicked any) {
	o, returned := parseTimed(&markup.LineParser{}, input)
	if !returned {
		return nil, nil, fmt.Sprintf("ParseMarkup did not return within %v: it does not terminate", markupTimeout)
	}
	return o.res, o.err, o.panicked
}

func runC13(l markupLine) Verdict {
	exp, err := expectMarkup(l)
	if err != nil {
		return Verdict{Discard: "model: " + err.Error()}
	}
	input := renderMarkupLine(l)
	res, perr, panicked := parseFresh(input)
	if panicked != nil {
		return failf("ParseMarkup(%q) panicked: %v", input, panicked)
	}
	if perr != nil {
		return failf("ParseMarkup(%q) failed on a well-formed line: %v", input, perr)
	}
	if msg := compareMarkup(exp, res); msg != "" {
		return failf("ParseMarkup(%q): %s", input, msg)
	}
	// ParseResult.Attribute finds an attribute by name
	for _, w := range exp.Attrs {
		a, ok := res.Attribute(w.Name)
		if !ok || a.Name != w.Name {
			return failf("ParseMarkup(%q): Attribute(%q) = %+v, %v although the line has such a marker", input, w.Name, a, ok)
		}
	}
	if a, ok := res.Attribute("no_such_marker_name"); ok {
		return failf("ParseMarkup(%q): Attribute(\"no_such_marker_name\") found %+v", input, a)
	}
	// TextForAttribute returns exactly the enclosed text
	runes := []rune(res.Text)
	for _, a := range res.Attributes {
		if a.Position < 0 || a.Length < 0 || a.Position+a.Length > len(runes) {
			return failf("ParseMarkup(%q): attribute %s has range [%d,+%d) outside the %d characters of %q", input, a.Name, a.Position, a.Length, len(runes), res.Text)
		}
		var got string
		var p any
		func() {
			defer func() { p = recover() }()
			got = res.TextForAttribute(a)
		}()
		if p != nil {
			return failf("ParseMarkup(%q): TextForAttribute(%s) panicked: %v", input, a.Name, p)
		}
		if want := string(runes[a.Position : a.Position+a.Length]); got != want {
			return failf("ParseMarkup(%q): TextForAttribute(%s) = %q, want %q", input, a.Name, got, want)
		}
	}
	// the same line through a dialogue runner (DialogueElement.Line.Attributes): escaped for the Yarn lexer
	runnerLevel := false
	if yarn, ok := yarnEscape(input); ok {
		runnerLevel = true
		dr, err := ysgo.NewDialogueRunner(nil, "abc", strings.NewReader("title: Start\n---\n"+yarn+"\n===\n"))
		if err != nil {
			return failf("the line %q, written in a script as %q, does not load: %v", input, yarn, err)
		}
		h := &host{dr: dr, storer: newRecStorer()}
		var el *ysgo.DialogueElement
		var nerr error
		var p any
		func() {
			defer func() { p = recover() }()
			el, nerr = dr.Next(0)
		}()
		_ = h
		if p != nil || nerr != nil || el == nil || el.Line == nil {
			return failf("the line %q, written in a script as %q: Next gives %+v, %v, panic %v", input, yarn, el, nerr, p)
		}
		if msg := compareMarkup(exp, &el.Line.ParseResult); msg != "" {
			return failf("through a dialogue runner (script line %q): %s", yarn, msg)
		}
	}
	// classification
	markers, multibyteBefore, nestedOrOverlap, replacement, decimal := 0, false, false, false, false
	seenMulti := l.Prefix != "" && len(l.Prefix) != utf8.RuneCountInString(l.Prefix)
	depth := 0
	var cls []string
	for _, s := range l.Segs {
		switch s.K {
		case "text":
			if len(s.S) != utf8.RuneCountInString(s.S) {
				seenMulti = true
			}
			continue
		case "esc":
			continue
		case "open":
			depth++
			if depth >= 2 {
				nestedOrOverlap = true
			}
		case "close":
			depth--
		case "closeall":
			depth = 0
		case "select", "plural", "ordinal", "nomarkup":
			replacement = true
			cls = append(cls, "replacement="+s.K)
		}
		markers++
		if seenMulti {
			multibyteBefore = true
		}
		for _, p := range s.Props {
			if p.Kind == "float" {
				decimal = true
			}
			cls = append(cls, "prop="+p.Kind)
		}
		if s.Short {
			cls = append(cls, "shorthand")
		}
		if len(s.Pad) > 0 {
			cls = append(cls, "padded-marker")
		}
		cls = append(cls, "marker="+s.K)
	}
	if l.Prefix != "" {
		cls = append(cls, "character-prefix")
	}
	if runnerLevel {
		cls = append(cls, "also-through-runner")
	}
	if multibyteBefore {
		cls = append(cls, "multibyte-before-marker")
	}
	if nestedOrOverlap {
		cls = append(cls, "nested-or-overlapping")
	}
	if res.Text != strings.TrimSpace(res.Text) || exp.Text == "" {
		cls = append(cls, "edge-whitespace")
	}
	return Verdict{NonTrivial: markers >= 2 && (multibyteBefore || nestedOrOverlap || replacement || decimal), Classes: cls}
}

// yarnEscape writes a markup line as the text of a Yarn line statement (ok = false when it cannot be a line).
func yarnEscape(line string) (string, bool) {
	if strings.TrimSpace(line) == "" || strings.ContainsAny(line, "\r\n") {
		return "", false
	}
	var b strings.Builder
	rs := []rune(line)
	for i := 0; i < len(rs); i++ {
		r := rs[i]
		switch {
		case r == '\\' && i+1 < len(rs) && (rs[i+1] == '[' || rs[i+1] == ']'):
			b.WriteString(`\` + string(rs[i+1])) // escaped markup brackets pass through the lexer unchanged
			i++
		case strings.ContainsRune(`\<>{}#/`, r):
			b.WriteString(`\` + string(r))
		default:
			b.WriteRune(r)
		}
	}
	out := strings.TrimLeft(b.String(), " \t") // indentation: dropped (a mixture of both would be a syntax error)
	if out == "" || strings.HasPrefix(out, `\[`) || strings.HasPrefix(out, `\]`) || strings.HasPrefix(out, "->") || strings.HasPrefix(out, "===") {
		return "", false
	}
	if r := []rune(out)[0]; r == '\u00a0' || r == '\u3000' {
		return "", false // other leading blanks are not indentation for the lexer but are trimmed from the text: keep it simple
	}
	return out, true
}

func renderC13(l markupLine) any { return renderMarkupLine(l) }

var c13Parse = Register(Prop[markupLine]{ID: "C13", Name: "parse", Gen: genMarkupLine, Run: runC13, Render: renderC13})

func TestC13Parse(t *testing.T) { Check(t, c13Parse) }

// Small-scope enumeration: every property value form x every padding point, every ordinal/plural value
// in 0..130, decimals with leading zeros in the fraction, multi-byte character names.
var c13Enum = Register(Prop[markupLine]{ID: "C13", Name: "enumerated", Run: runC13, Render: renderC13})

func TestC13Enumerated(t *testing.T) {
	Enumerate(t, c13Enum, true, "ordinal and plural for every value 0..130; every decimal d.f with f in {0,00,05,5,50,001,125,999} and d in {0,1,9,10}; every character name x 1-3 blanks; every marker kind after 0-3 characters of text and before text with and without leading blanks; every text-bit pair around one marker pair",
		func(yield func(markupLine) bool) {
			text := func(s string) mseg { return mseg{K: "text", S: s} }
			for n := 0; n <= 130; n++ {
				v := fmt.Sprint(n)
				ord := mseg{K: "ordinal", Name: "ordinal", Props: []mprop{{"value", "int", v}, {"one", "quoted", "%st"}, {"two", "quoted", "%nd"}, {"few", "quoted", "%rd"}, {"other", "quoted", "%th"}}}
				plu := mseg{K: "plural", Name: "plural", Props: []mprop{{"value", "int", v}, {"one", "quoted", "% thing"}, {"other", "quoted", "% things"}}}
				if !yield(markupLine{Segs: []mseg{text("the "), ord, text(" of "), plu}}) {
					return
				}
			}
			for _, d := range []string{"0", "1", "9", "10"} {
				for _, f := range []string{"0", "00", "05", "5", "50", "001", "125", "999", "0625"} {
					open := mseg{K: "open", Name: "a", Props: []mprop{{"v", "float", d + "." + f}}}
					self := mseg{K: "self", Name: "b", Short: true, Props: []mprop{{"b", "float", d + "." + f}}}
					if !yield(markupLine{Segs: []mseg{text("xé"), open, text("y"), mseg{K: "close", Name: "a"}, text(" z "), self, text(" w")}}) {
						return
					}
				}
			}
			for _, name := range []string{"Bob", "José", "日本", "Mr Smith", "é", "😀x"} {
				for ws := 1; ws <= 3; ws++ {
					for _, inner := range []string{"hi", "é", " x "} {
						l := markupLine{Prefix: name, PreWS: ws, Segs: []mseg{text("w"), mseg{K: "open", Name: "a"}, text(inner), mseg{K: "close", Name: "a"}}}
						if !yield(l) {
							return
						}
					}
				}
			}
			// every marker kind after 0-3 characters of text (the start of the line is special, one character after it is not)
			for _, before := range []string{"", "x", "é", " ", "xy", "x ", " x", "日本", "xyz", "xy ", "  "} {
				for _, after := range []string{" y", "y", "  y", " ", "", "\ty"} {
					for _, seg := range []mseg{
						{K: "self", Name: "a"},
						{K: "self", Name: "a", Props: []mprop{{"trimwhitespace", "bool", "false"}}},
						{K: "self", Name: "a", Props: []mprop{{"trimwhitespace", "bool", "true"}}},
						{K: "open", Name: "a"},
						{K: "open", Name: "a", Props: []mprop{{"trimwhitespace", "bool", "true"}}},
						{K: "select", Name: "select", Props: []mprop{{"value", "word", "m"}, {"m", "quoted", "he"}}},
					} {
						var segs []mseg
						if before != "" {
							segs = append(segs, text(before))
						}
						segs = append(segs, seg)
						if after != "" {
							segs = append(segs, text(after))
						}
						if seg.K == "open" {
							segs = append(segs, mseg{K: "close", Name: "a"})
						}
						if !yield(markupLine{Segs: segs}) {
							return
						}
					}
				}
			}
			for _, before := range markupTextBit {
				for _, inside := range markupTextBit {
					for _, after := range []string{"", " ", "z", " é"} {
						segs := []mseg{text(before), mseg{K: "open", Name: "a"}, text(inside), mseg{K: "open", Name: "b"}, text("·"), mseg{K: "close", Name: "a"}, mseg{K: "close", Name: "b"}}
						if after != "" {
							segs = append(segs, text(after))
						}
						if !yield(markupLine{Segs: segs}) {
							return
						}
					}
				}
			}
		})
}

// genLiberalLine assembles a line from the same segments as genMarkupLine but without any of the
// restrictions the C13 model needs (balance, no re-opening, whitespace-swallowing markers only after text):
// the model-free checks C14 and C15 quantify over all lines.
func genLiberalLine(t *rapid.T) string {
	n := rapid.IntRange(0, 8).Draw(t, "pieces")
	var b strings.Builder
	for i := 0; i < n; i++ {
		switch rapid.IntRange(0, 15).Draw(t, "piece") {
		case 0, 1, 2:
			b.WriteString(genText(t))
		case 3:
			b.WriteString(rapid.SampledFrom([]string{" ", " x", "y ", ": ", "Bob: "}).Draw(t, "ws"))
		case 4, 5:
			b.WriteString(`\` + rapid.SampledFrom([]string{"[", "]"}).Draw(t, "esc"))
		case 6, 7:
			seg := mseg{K: "open", Name: rapid.SampledFrom(markupNames[:4]).Draw(t, "name"), Pad: genPads(t)}
			genMarkerProps(t, &seg)
			b.WriteString(renderSeg(seg))
		case 8, 9:
			b.WriteString(renderSeg(mseg{K: "close", Name: rapid.SampledFrom(markupNames[:4]).Draw(t, "name"), Pad: genPads(t)}))
		case 10:
			b.WriteString("[/]")
		case 11, 12:
			seg := mseg{K: "self", Name: rapid.SampledFrom(markupNames).Draw(t, "name"), Pad: genPads(t)}
			genMarkerProps(t, &seg)
			b.WriteString(renderSeg(seg))
		case 13, 14:
			b.WriteString(renderSeg(genReplacement(t)))
		default:
			b.WriteString(rapid.SampledFrom(markupFragments).Draw(t, "frag"))
		}
	}
	return b.String()
}

// ---------------------------------------------------------------------------------------
// C15

type attrSafety struct {
	attrs int
	fail  string
}

func checkResultSafe(input string, res *markup.ParseResult) attrSafety {
	n := utf8.RuneCountInString(res.Text)
	out := attrSafety{attrs: len(res.Attributes)}
	for _, a := range res.Attributes {
		if a.Position < 0 || a.Length < 0 || a.Position+a.Length > n {
			out.fail = fmt.Sprintf("ParseMarkup(%q): attribute %q has position %d and length %d, outside the %d characters of the text %q", input, a.Name, a.Position, a.Length, n, res.Text)
			return out
		}
		var got string
		var p any
		func() {
			defer func() { p = recover() }()
			got = res.TextForAttribute(a)
		}()
		if p != nil {
			out.fail = fmt.Sprintf("ParseMarkup(%q): TextForAttribute(%q) panicked: %v", input, a.Name, p)
			return out
		}
		if utf8.RuneCountInString(got) != a.Length {
			out.fail = fmt.Sprintf("ParseMarkup(%q): TextForAttribute(%q) has %d characters, attribute length is %d", input, a.Name, utf8.RuneCountInString(got), a.Length)
			return out
		}
	}
	return out
}

func runC15(c textCase) Verdict {
	res, err, panicked := parseFresh(c.Input)
	if panicked != nil {
		return failf("ParseMarkup(%q) panicked: %v", c.Input, panicked)
	}
	cls := []string{"kind=" + c.Kind}
	hasBracket := strings.Contains(c.Input, "[")
	if err != nil {
		if res != nil {
			return failf("ParseMarkup(%q) returned both a result and an error", c.Input)
		}
		cls = append(cls, "error")
		return Verdict{NonTrivial: hasBracket, Classes: cls}
	}
	if res == nil {
		return failf("ParseMarkup(%q) returned neither a result nor an error", c.Input)
	}
	s := checkResultSafe(c.Input, res)
	if s.fail != "" {
		return Verdict{Fail: s.fail}
	}
	cls = append(cls, "ok", fmt.Sprintf("attrs=%d", min(s.attrs, 4)))
	if res.Text != "" && strings.TrimSpace(c.Input) != c.Input {
		cls = append(cls, "edge-whitespace")
	}
	return Verdict{NonTrivial: hasBracket && s.attrs >= 1, Classes: cls}
}

var markupFragments = []string{"[", "]", "[/", "/]", "[/]", "=", "\"", "\\", "\\[", "\\]", ":", ": ", " ", "  ", "\t", "a", "b", "nomarkup", "[nomarkup]", "[/nomarkup]",
	"select", "plural", "ordinal", "value=", "value=1", "one=\"x\"", "other=\"%\"", "1", "0", ".", "1.5", "true", "false", "trimwhitespace=", "trimwhitespace=true",
	"one=\"%\\\\\"", "\\\\\"", "\\%", "[plural value=1 one=\"", "[select value=x x=\"", "\" /]", "\"]", "[nomarkup]\xff[/nomarkup]", "\xe9", "\xf0\x9f",
	"value=9223372036854775807", "value=9223372036854775808", "value=-9223372036854775808", "value=-9223372036854775809", "value=18446744073709551616", "value=4294967296", "value=2147483648",
	"[ordinal value=", "[plural value=", "9223372036854775808", "two=\"b\" few=\"c\" many=\"d\"",
	"[a]", "[/a]", "[a/]", "[b]", "[/b]", "[b /]", "é", "日本", "😀", "\u00a0", "\u3000", "character", "[character name=\"x\"]", "name", "x", "%", "\xff", "\xc3", "\x00", "٣", "[a=", "[a x=", "_"}

func genMarkupSoup(t *rapid.T) string {
	n := rapid.IntRange(0, 24).Draw(t, "parts")
	var b strings.Builder
	for i := 0; i < n; i++ {
		b.WriteString(rapid.SampledFrom(markupFragments).Draw(t, "frag"))
	}
	return b.String()
}

func genC15(t *rapid.T) textCase {
	switch rapid.IntRange(0, 15).Draw(t, "kind") {
	case 15:
		// replacement markers whose value is a number at the edge of an integer type, or not a number of any integer type
		value := genBoundaryDecimal(t)
		if rapid.IntRange(0, 3).Draw(t, "exact") != 0 {
			v := new(big.Int).Lsh(big.NewInt(1), rapid.SampledFrom([]uint{7, 8, 15, 16, 31, 32, 53, 63, 64}).Draw(t, "exp"))
			v.Add(v, big.NewInt(int64(rapid.IntRange(-2, 2).Draw(t, "delta"))))
			if rapid.Bool().Draw(t, "negative") {
				v.Neg(v)
			}
			value = v.String()
		}
		name := rapid.SampledFrom([]string{"ordinal", "ordinal", "plural", "plural", "select", "a"}).Draw(t, "marker")
		cases := `one="1st %" two="2nd" few="3rd" many="many" other="%th" zero="none"`
		if name == "select" {
			cases = fmt.Sprintf(`%s="picked" other="%%"`, strings.TrimLeft(value, "-"))
		}
		pre := rapid.SampledFrom([]string{"", "x ", "Bob: ", "[b]"}).Draw(t, "pre")
		if rapid.Bool().Draw(t, "openform") {
			return textCase{Input: fmt.Sprintf("%s[%s value=%s %s]inner[/%s] tail", pre, name, value, cases, name), Kind: "boundary-value"}
		}
		return textCase{Input: fmt.Sprintf("%s[%s value=%s %s /] tail", pre, name, value, cases), Kind: "boundary-value"}
	case 14:
		// the bytes of one character spread over several raw sections, with markers around and between them
		ch := rapid.SampledFrom([]string{"€", "é", "😀", "日", " "}).Draw(t, "char")
		var b strings.Builder
		b.WriteString(rapid.SampledFrom([]string{"", "x", "[a]", " ", "[b]y"}).Draw(t, "pre"))
		for len(ch) > 0 {
			n := rapid.IntRange(1, len(ch)).Draw(t, "bytes")
			b.WriteString("[nomarkup]" + ch[:n] + "[/nomarkup]")
			ch = ch[n:]
			b.WriteString(rapid.SampledFrom([]string{"", "", "[b]", "[/b]", "[c/]", "[a]", "[/a]", "[/]", "z", " "}).Draw(t, "between"))
		}
		b.WriteString(rapid.SampledFrom([]string{"", "xyz", "[/b]", "[/a]w", "[/]", " [c/] "}).Draw(t, "post"))
		return textCase{Input: b.String(), Kind: "split-character"}
	case 10, 11:
		return textCase{Input: genLiberalLine(t), Kind: "liberal"}
	case 12:
		// raw sections protect their content from the main loop: arbitrary bytes inside
		raw := strings.NewReplacer("[", "(", "]", ")").Replace(string(rapid.SliceOfN(rapid.Byte(), 0, 12).Draw(t, "raw")))
		pre := rapid.SampledFrom([]string{"", "x ", "é", "[a]"}).Draw(t, "pre")
		post := rapid.SampledFrom([]string{"", " y", "[b/]", "[/]", "z[c]w[/c]"}).Draw(t, "post")
		return textCase{Input: pre + "[nomarkup]" + raw + "[/nomarkup]" + post, Kind: "raw-bytes"}
	case 13:
		s := genLiberalLine(t)
		if len(s) > 0 {
			a := rapid.IntRange(0, len(s)-1).Draw(t, "a")
			s = s[:a] + string([]byte{rapid.Byte().Draw(t, "byte")}) + s[a:]
		}
		return textCase{Input: s, Kind: "liberal-byte"}
	case 0:
		return textCase{Input: string(rapid.SliceOfN(rapid.Byte(), 0, 64).Draw(t, "bytes")), Kind: "bytes"}
	case 1:
		return textCase{Input: rapid.String().Draw(t, "s"), Kind: "string"}
	case 2, 3, 4:
		return textCase{Input: genMarkupSoup(t), Kind: "soup"}
	case 5, 6:
		// well-formed line with edge whitespace added
		l := genMarkupLine(t)
		pre := rapid.SampledFrom([]string{"", " ", "  ", "\t", "\u00a0"}).Draw(t, "pre")
		post := rapid.SampledFrom([]string{"", " ", "  ", "\t"}).Draw(t, "post")
		return textCase{Input: pre + renderMarkupLine(l) + post, Kind: "wellformed-padded"}
	default:
		s := renderMarkupLine(genMarkupLine(t))
		k := rapid.IntRange(1, 3).Draw(t, "k")
		for i := 0; i < k; i++ {
			switch rapid.IntRange(0, 2).Draw(t, "mut") {
			case 0:
				off := rapid.IntRange(0, len(s)).Draw(t, "off")
				s = s[:off] + rapid.SampledFrom(markupFragments).Draw(t, "frag") + s[off:]
			case 1:
				s = s[:rapid.IntRange(0, len(s)).Draw(t, "cut")]
			case 2:
				if len(s) > 0 {
					a := rapid.IntRange(0, len(s)-1).Draw(t, "a")
					b := min(len(s), a+rapid.IntRange(1, 6).Draw(t, "l"))
					s = s[:a] + s[b:]
				}
			}
		}
		return textCase{Input: s, Kind: "mutated"}
	}
}

var c15Total = Register(Prop[textCase]{ID: "C15", Name: "total", Gen: genC15, Run: runC15})

func TestC15Total(t *testing.T) { Check(t, c15Total) }

func FuzzC15(f *testing.F) {
	for _, s := range []string{"", "[a]x[/a]", " [a]x[/a]", "[a]x [/a]", " [0/]", "Bob: hi", "[a]Bob[/a]: hi", "José: [b]x[/b]", "[select value=a a=\"x\" /]",
		"[nomarkup][b][/nomarkup]", "[plural value=1 one=\"%\" other=\"%s\"/]", "\\[x\\]", "[a=1.05]x[/]", "[a trimwhitespace=true] x[/a]", "x [b/] y", "日本: 語[a/]"} {
		f.Add(s)
	}
	f.Fuzz(func(t *testing.T, s string) {
		if len(s) > 512 {
			return
		}
		DecideFuzz(t, c15Total, textCase{Input: s, Kind: "fuzz"})
	})
}

// ---------------------------------------------------------------------------------------
// C14

type c14Case struct {
	History []string `json:"history"`
	Probe   string   `json:"probe"`
}

type parseOutcome struct {
	Res *markup.ParseResult
	Err string
}

func parseWith(p *markup.LineParser, input string) (o parseOutcome, panicked any) {
	out, returned := parseTimed(p, input)
	if !returned {
		return parseOutcome{}, fmt.Sprintf("ParseMarkup did not return within %v: it does not terminate", markupTimeout)
	}
	if out.panicked != nil {
		return parseOutcome{}, out.panicked
	}
	if out.err != nil {
		return parseOutcome{Err: "error"}, nil
	}
	return parseOutcome{Res: out.res}, nil
}

func embeddable(line string) bool {
	if line == "" || strings.TrimSpace(line) != line {
		return false
	}
	if strings.ContainsAny(line, "#{}<>\\\r\n") || strings.Contains(line, "//") {
		return false
	}
	switch line[0] {
	case '-', '=':
		return false
	}
	return !strings.HasPrefix(line, "title:")
}

func runC14(c c14Case) Verdict { return decideC14(c, true) }

func runC14ParserOnly(c c14Case) Verdict { return decideC14(c, false) }

// copyOutcome makes a copy that shares nothing with the result the parser returned.
func copyOutcome(o parseOutcome) parseOutcome {
	if o.Res == nil {
		return o
	}
	res := &markup.ParseResult{Text: o.Res.Text}
	if o.Res.Attributes != nil {
		res.Attributes = make([]markup.Attribute, len(o.Res.Attributes))
		for i, a := range o.Res.Attributes {
			res.Attributes[i] = a
			if a.Properties != nil {
				res.Attributes[i].Properties = make(map[string]markup.Value, len(a.Properties))
				for k, v := range a.Properties {
					res.Attributes[i].Properties[k] = v
				}
			}
		}
	}
	return parseOutcome{Res: res, Err: o.Err}
}

// scribble overwrites everything a caller can reach in a result it was given (the result belongs to the caller).
func scribble(o parseOutcome) {
	if o.Res == nil {
		return
	}
	for i := range o.Res.Attributes {
		a := &o.Res.Attributes[i]
		if a.Properties != nil {
			a.Properties["scribbled"] = markup.Value{StringValue: "by the caller", ValueType: markup.ValueTypeString}
			for k := range a.Properties {
				a.Properties[k] = markup.Value{StringValue: "overwritten", ValueType: markup.ValueTypeString}
			}
		}
		a.Name, a.Position, a.Length, a.SourcePosition = "scribbled", -7, -7, -7
	}
	if cap(o.Res.Attributes) > len(o.Res.Attributes) {
		_ = append(o.Res.Attributes, markup.Attribute{Name: "appended by the caller"})
	}
	o.Res.Text = "scribbled"
}

func decideC14(c c14Case, runnerLevel bool) Verdict {
	freshLive, p1 := parseWith(&markup.LineParser{}, c.Probe)
	if p1 != nil {
		return Verdict{Discard: "probe panics on a fresh parser (C15's business)"}
	}
	fresh := copyOutcome(freshLive)
	reused := &markup.LineParser{}
	failing := 0
	type handedOut struct {
		line       string
		live, copy parseOutcome
	}
	var earlier []handedOut
	for i, h := range c.History {
		o, p := parseWith(reused, h)
		if p != nil {
			return Verdict{Discard: "history line panics (C15's business)"}
		}
		if o.Err != "" {
			failing++
		}
		// results handed out before are values of their own: parsing another line must not change them
		for _, e := range earlier {
			if !reflect.DeepEqual(e.live, e.copy) {
				return failf("the result of ParseMarkup(%q) changed after it was returned, while the same parser parsed %q:\n when returned: %s\n now:           %s",
					e.line, c.History[len(earlier):i+1], showOutcome(e.copy), showOutcome(e.live))
			}
		}
		earlier = append(earlier, handedOut{h, o, copyOutcome(o)})
	}
	// the caller owns the results: whatever it does to them must not reach later parses either
	if len(c.History)%2 == 1 {
		for _, e := range earlier {
			scribble(e.live)
		}
		scribble(freshLive)
	}
	after, p2 := parseWith(reused, c.Probe)
	if p2 != nil {
		return failf("ParseMarkup(%q) panicked on a parser that had parsed %q, but not on a fresh one: %v", c.Probe, c.History, p2)
	}
	if !reflect.DeepEqual(fresh, after) {
		return failf("ParseMarkup(%q) depends on the parser's history %q:\n fresh:  %s\n reused: %s", c.Probe, c.History, showOutcome(fresh), showOutcome(after))
	}
	// a copy of the parser value (a LineParser is a plain struct: returning it by value, storing it in a slice that grows)
	copied := *reused
	onCopy, p5 := parseWith(&copied, c.Probe)
	if p5 != nil || !reflect.DeepEqual(fresh, onCopy) {
		return failf("ParseMarkup(%q) on a copy of a parser value that had parsed %q differs from a fresh parser (panic: %v):\n fresh: %s\n copy:  %s", c.Probe, c.History, p5, showOutcome(fresh), showOutcome(onCopy))
	}
	// a second parse of the same line on the same parser (the first result is kept, and must stay what it was - unless
	// the caller itself changes it, which it does now and then: the second parse must not see that either)
	afterCopy := copyOutcome(after)
	if len(c.Probe)%3 == 0 {
		scribble(after)
		afterCopy = copyOutcome(after)
	}
	again, p3 := parseWith(reused, c.Probe)
	if p3 != nil || !reflect.DeepEqual(fresh, again) {
		return failf("ParseMarkup(%q) twice on one parser gives different results:\n first:  %s\n second: %s", c.Probe, showOutcome(fresh), showOutcome(again))
	}
	if !reflect.DeepEqual(after, afterCopy) {
		return failf("the result of ParseMarkup(%q) changed after it was returned, while the same parser parsed the same line again:\n when returned: %s\n now:           %s", c.Probe, showOutcome(afterCopy), showOutcome(after))
	}
	if len(c.History)%2 == 1 {
		// and a parser created after the caller scribbled over earlier results
		late, p4 := parseWith(&markup.LineParser{}, c.Probe)
		if p4 != nil || !reflect.DeepEqual(fresh, late) {
			return failf("ParseMarkup(%q) on a new parser depends on what the caller did to results of earlier lines %q:\n before: %s\n after:  %s", c.Probe, c.History, showOutcome(fresh), showOutcome(late))
		}
	}
	cls := []string{fmt.Sprintf("history=%d", min(len(c.History), 4)), fmt.Sprintf("failing-history=%d", min(failing, 3))}

	// runner level: the same line reached through different dialogue prefixes
	if runnerLevel && embeddable(c.Probe) {
		var hist []string
		for _, h := range c.History {
			if embeddable(h) {
				hist = append(hist, h)
			}
		}
		alone, err1 := lastLineOf(nil, c.Probe)
		with, err2 := lastLineOf(hist, c.Probe)
		if err1 != "" || err2 != "" {
			if err1 != err2 {
				return failf("runner: line %q after prefix %q: %q; alone: %q", c.Probe, hist, err2, err1)
			}
		} else if !reflect.DeepEqual(alone, with) {
			return failf("runner: Line of %q differs after the prefix %q:\n alone: %+v\n after: %+v", c.Probe, hist, alone, with)
		}
		cls = append(cls, "runner-level")
		// the lines as the options of one group: one element holds several results of the runner's parser at once
		if len(hist) > 0 && alone != nil {
			opts, errOpts := optionLinesOf(append(append([]string{}, hist...), c.Probe))
			if errOpts == "" {
				first, errFirst := lastLineOf(nil, hist[0])
				if got := opts[len(opts)-1]; !reflect.DeepEqual(alone, got) {
					return failf("runner: as the last option after the options %q, the Line of %q differs from the line shown alone:\n alone:  %+v\n option: %+v", hist, c.Probe, alone, got)
				}
				if errFirst == "" && first != nil && !reflect.DeepEqual(first, opts[0]) {
					return failf("runner: as the first option of the group %q, the Line of %q differs from the line shown alone:\n alone:  %+v\n option: %+v", append(hist, c.Probe), hist[0], first, opts[0])
				}
				cls = append(cls, "option-group")
			}
		}
	}
	markerHistory := false
	for _, h := range c.History {
		if strings.Contains(h, "[") {
			markerHistory = true
		}
	}
	return Verdict{NonTrivial: markerHistory && fresh.Res != nil && len(fresh.Res.Attributes) >= 1, Classes: cls}
}

func showOutcome(o parseOutcome) string {
	if o.Res == nil {
		return "error"
	}
	return fmt.Sprintf("text=%q attributes=%+v", o.Res.Text, o.Res.Attributes)
}

// lastLineOf runs a one-node script made of the given lines and returns the element for the last one
// ("error" outcomes are reported as a string).
func lastLineOf(prefix []string, probe string) (*ysgo.Line, string) {
	src := "title: Start\n---\n"
	for _, h := range prefix {
		src += h + "\n"
	}
	src += probe + "\n===\n"
	dr, err := ysgo.NewDialogueRunner(nil, "abc", strings.NewReader(src))
	if err != nil {
		return nil, "load: " + err.Error()
	}
	var last *ysgo.Line
	lastErr := ""
	for i := 0; i <= len(prefix); i++ {
		el, err := dr.Next(0)
		last, lastErr = nil, ""
		switch {
		case err != nil:
			lastErr = "error from Next"
		case el == nil:
			return nil, fmt.Sprintf("dialogue ended after %d of %d lines", i, len(prefix)+1)
		case el.Line == nil:
			return nil, "not a line"
		default:
			last = el.Line
		}
	}
	return last, lastErr
}

// optionLinesOf runs a one-node script whose only statement is an option group with the given labels.
func optionLinesOf(labels []string) ([]*ysgo.Line, string) {
	src := "title: Start\n---\n"
	for _, l := range labels {
		src += "-> " + l + "\n"
	}
	src += "===\n"
	dr, err := ysgo.NewDialogueRunner(nil, "abc", strings.NewReader(src))
	if err != nil {
		return nil, "load: " + err.Error()
	}
	el, err := dr.Next(0)
	if err != nil || el == nil || len(el.Options) != len(labels) {
		return nil, "no option group"
	}
	out := make([]*ysgo.Line, len(labels))
	for i := range el.Options {
		out[i] = el.Options[i].Line
	}
	return out, ""
}

func genC14(t *rapid.T) c14Case {
	var c c14Case
	n := rapid.IntRange(0, 6).Draw(t, "history")
	line := func() string {
		switch rapid.IntRange(0, 9).Draw(t, "kind") {
		case 9:
			// plain text of one kind (ASCII only, or not), replacement text of the other, and markers in and behind trailing blanks:
			// whatever a parser remembers about the kind of text it has seen shows here
			plain := rapid.SampledFrom([]string{"is here", "Bob: is here", "x", "é là", "日本: 語"}).Draw(t, "plain")
			rep := rapid.SampledFrom([]string{`[select value=f f="fiancée" m="fiance" /]`, `[nomarkup]é[/nomarkup]`, `[nomarkup]raw[/nomarkup]`, `[plural value=2 one="œuf" other="œufs" /]`, `[select value=m f="x" m="y" /]`}).Draw(t, "rep")
			tail := rapid.SampledFrom([]string{" [wave/]", " [b]x [/b]", "[a] [/a] ", " [wave/] ", "[k/]"}).Draw(t, "tail")
			if rapid.Bool().Draw(t, "repfirst") {
				return rep + " " + plain + tail
			}
			return plain + " " + rep + tail
		case 6, 7:
			return genLiberalLine(t)
		case 8:
			s := genLiberalLine(t)
			return s[:rapid.IntRange(0, len(s)).Draw(t, "cut")]
		case 0:
			return genMarkupSoup(t)
		case 1:
			s := renderMarkupLine(genMarkupLine(t))
			return s[:rapid.IntRange(0, len(s)).Draw(t, "cut")]
		default:
			return renderMarkupLine(genMarkupLine(t))
		}
	}
	for i := 0; i < n; i++ {
		c.History = append(c.History, line())
	}
	c.Probe = line()
	return c
}

var c14Pure = Register(Prop[c14Case]{ID: "C14", Name: "pure", Gen: genC14, Run: runC14})

func TestC14Pure(t *testing.T) { Check(t, c14Pure) }

// Small-scope exhaustive C14: every (history line, probe line) pair assembled from a set of atoms that
// covers each parser state that could leak (pending whitespace, escapes, open markers, failures inside a
// marker, replacement markers of different names closed by name).
var c14Atoms = []string{"x", " ", " y", "z ", `\[`, "[a]", "[/a]", "[/]", "[b/]", "[a", "[nomarkup]r[/nomarkup]", `[select value=m m=q]s[/select]`, ": "}

func atomLines(maxAtoms int) []string {
	var out []string
	var rec func(prefix string, left int)
	rec = func(prefix string, left int) {
		if prefix != "" {
			out = append(out, prefix)
		}
		if left == 0 {
			return
		}
		for _, a := range c14Atoms {
			rec(prefix+a, left-1)
		}
	}
	rec("", maxAtoms)
	return out
}

var c14Pairs = Register(Prop[c14Case]{ID: "C14", Name: "pairs", Run: runC14ParserOnly})

func TestC14Pairs(t *testing.T) {
	hmax, pmax := envInt("VERIF_C14_HISTORY_ATOMS", 2), envInt("VERIF_C14_PROBE_ATOMS", 3)
	Enumerate(t, c14Pairs, true, fmt.Sprintf("every pair (history line of <= %d atoms, probe line of <= %d atoms) over %d atoms", hmax, pmax, len(c14Atoms)),
		func(yield func(c14Case) bool) {
			probes := atomLines(pmax)
			for _, h := range atomLines(hmax) {
				for _, p := range probes {
					if !yield(c14Case{History: []string{h}, Probe: p}) {
						return
					}
				}
			}
		})
}

// C15 on a reused parser: every result produced along a history of lines must be safe to use.
func runC15Reused(c c14Case) Verdict {
	p := &markup.LineParser{}
	attrs, errs := 0, 0
	for i, line := range append(append([]string{}, c.History...), c.Probe) {
		o, returned := parseTimed(p, line)
		if !returned {
			return failf("line %d of the history %q: ParseMarkup(%q) did not return within %v: it does not terminate", i, c.History, line, markupTimeout)
		}
		res, err, panicked := o.res, o.err, o.panicked
		if panicked != nil {
			return failf("line %d of the history %q: ParseMarkup(%q) panicked: %v", i, c.History, line, panicked)
		}
		if err != nil {
			errs++
			continue
		}
		s := checkResultSafe(line, res)
		if s.fail != "" {
			return failf("after the history %q: %s", c.History[:min(i, len(c.History))], s.fail)
		}
		attrs += s.attrs
	}
	return Verdict{NonTrivial: attrs >= 1 && errs >= 1, Classes: []string{fmt.Sprintf("errors=%d", min(errs, 3))}}
}

var c15Reused = Register(Prop[c14Case]{ID: "C15", Name: "reused-parser", Gen: genC14, Run: runC15Reused})

func TestC15Reused(t *testing.T) { Check(t, c15Reused) }

// Long histories: the probe line has been parsed before, followed by many distinct other lines (state that only
// shows after a parser has seen a lot, e.g. a cache that wraps around).
var c14Long = Register(Prop[c14Case]{ID: "C14", Name: "long-history", Run: runC14ParserOnly,
	Gen: func(t *rapid.T) c14Case {
		n := rapid.IntRange(20, 90).Draw(t, "length")
		var c c14Case
		// in a quarter of the cases the lines carry kilobytes of replacement text: whatever a parser accumulates over its
		// life (counters, buffers) grows fast
		bulk := ""
		if rapid.IntRange(0, 3).Draw(t, "bulk") == 0 {
			bulk = " [nomarkup]" + strings.Repeat("raw text ", rapid.SampledFrom([]int{100, 400, 1000}).Draw(t, "bulksize")) + "[/nomarkup] [select value=k k=\"" + strings.Repeat("chosen ", 150) + "\" /]"
		}
		pool := []string{renderMarkupLine(genMarkupLine(t)), renderMarkupLine(genMarkupLine(t)), genLiberalLine(t), renderMarkupLine(genMarkupLine(t))}
		for i := 0; i < n; i++ {
			switch rapid.IntRange(0, 5).Draw(t, "kind") {
			case 0:
				c.History = append(c.History, rapid.SampledFrom(pool).Draw(t, "pooled"))
			case 1:
				c.History = append(c.History, fmt.Sprintf("[a]line %d[/a] [b n=%d /] tail%s", i, i, bulk))
				if i%9 == 4 {
					// a line with hundreds of markers, some of them left open, followed by a line that closes everything
					many := rapid.SampledFrom([]int{60, 151, 152, 200, 320, 700}).Draw(t, "markers")
					c.History = append(c.History, strings.Repeat("[k/][o]x", many/2), "Oh, [wave][bounce]hello[/] there!")
				}
			default:
				c.History = append(c.History, fmt.Sprintf("%s #%d", rapid.SampledFrom(pool).Draw(t, "base"), i))
			}
		}
		c.Probe = c.History[rapid.IntRange(0, min(8, n-1)).Draw(t, "which")]
		return c
	},
	Render: func(c c14Case) any {
		return map[string]any{"history_lines": len(c.History), "first_lines": c.History[:min(3, len(c.History))], "probe": c.Probe}
	},
})

func TestC14LongHistory(t *testing.T) { Check(t, c14Long) }

// ---------------------------------------------------------------------------------------
// C13: the implicit character attribute next to markers named "character" that do not become attributes (left open)

type c13CharCase struct {
	Name   string `json:"name"`
	Blanks int    `json:"blanks"`
	Marker string `json:"marker"` // an open marker that is never closed, written somewhere in the line
	Where  string `json:"where"`  // start, after-prefix, end
	Rest   string `json:"rest"`
}

func runC13Char(c c13CharCase) Verdict {
	prefix := c.Name + ":" + strings.Repeat(" ", c.Blanks)
	var line string
	switch c.Where {
	case "start":
		line = c.Marker + prefix + c.Rest
	case "after-prefix":
		line = prefix + c.Marker + c.Rest
	default:
		line = prefix + c.Rest + c.Marker
	}
	res, err, panicked := parseFresh(line)
	if panicked != nil {
		return failf("ParseMarkup(%q) panicked: %v", line, panicked)
	}
	if err != nil {
		return Verdict{Discard: "the line is refused"}
	}
	var found []markup.Attribute
	for _, a := range res.Attributes {
		if a.Name == "character" {
			found = append(found, a)
		}
	}
	wantLen := utf8.RuneCountInString(prefix)
	if len(found) != 1 || found[0].Position != 0 || found[0].Length != wantLen || found[0].Properties["name"].StringValue != c.Name {
		return failf("ParseMarkup(%q): the prefix %q must yield one character attribute 0+%d with name %q (the marker %s is never closed and is no attribute); attributes: %+v", line, prefix, wantLen, c.Name, c.Marker, res.Attributes)
	}
	if got := res.TextForAttribute(found[0]); got != strings.TrimRight(prefix, " ") && got != prefix {
		return failf("ParseMarkup(%q): TextForAttribute(character) = %q, want the prefix %q", line, got, prefix)
	}
	return Verdict{NonTrivial: true, Classes: []string{"where=" + c.Where}}
}

var c13Char = Register(Prop[c13CharCase]{
	ID: "C13", Name: "character-prefix", Run: runC13Char,
	Gen: func(t *rapid.T) c13CharCase {
		return c13CharCase{
			Name:   rapid.SampledFrom([]string{"Bob", "José", "日本", "Mr Smith", "é"}).Draw(t, "name"),
			Blanks: rapid.IntRange(1, 3).Draw(t, "blanks"),
			Marker: rapid.SampledFrom([]string{"[character]", "[character name=\"Bob\"]", "[character name=Alice]", "[b]", "[characters]", "[Character]", "[character x=1 name=\"Q\"]"}).Draw(t, "marker"),
			Where:  rapid.SampledFrom([]string{"start", "after-prefix", "end"}).Draw(t, "where"),
			Rest:   rapid.SampledFrom([]string{"Hi there", "x", "[i]hi[/i] you", "é 日本"}).Draw(t, "rest"),
		}
	},
})

func TestC13CharacterPrefix(t *testing.T) { Check(t, c13Char) }

// ---------------------------------------------------------------------------------------
// C13: several markers of one name open at the same time ("repeated markers"), next to markers of other names.
// Which open marker a [/a] closes when two are open is not stated, so nothing here depends on it. What is stated:
// every marker yields an attribute that starts where the marker was written; markers are no text. Hence
//   (1) the start positions of the a-attributes are the places of the [a ...] markers, one each, properties attached;
//   (2) their ends are, as a multiset, the places of the [/a] markers;
//   (3) the a-attributes are the same whether or not markers of OTHER names are written in the line - taking the
//       markers [x] [/x] [y] [/y] out of the line takes out no text and no a-marker.

type c13RepTok struct {
	K string `json:"k"` // text, open, close
	N string `json:"n,omitempty"`
	T string `json:"t,omitempty"`
}

type c13RepCase struct {
	Toks     []c13RepTok `json:"toks"`
	CloseAll bool        `json:"close_all,omitempty"` // what is still open at the end is closed by [/] instead of by name
}

func (c c13RepCase) render(withOthers bool) (line string, opens map[int]int, closes []int, ok bool) {
	var b strings.Builder
	pos, k := 0, 0
	opens = map[int]int{}
	open := map[string]int{}
	for _, tok := range c.Toks {
		other := tok.N != "a"
		switch tok.K {
		case "text":
			b.WriteString(tok.T)
			pos += utf8.RuneCountInString(tok.T)
		case "open":
			if other && open[tok.N] > 0 {
				continue // names other than a are open once at a time: their pairing is never in question
			}
			open[tok.N]++
			if other {
				if withOthers {
					b.WriteString("[" + tok.N + "]")
				}
				continue
			}
			k++
			opens[k] = pos
			fmt.Fprintf(&b, "[a k=%d]", k)
		case "close":
			if open[tok.N] == 0 {
				continue
			}
			open[tok.N]--
			if other {
				if withOthers {
					b.WriteString("[/" + tok.N + "]")
				}
				continue
			}
			closes = append(closes, pos)
			b.WriteString("[/a]")
		}
	}
	if c.CloseAll {
		for i := 0; i < open["a"]; i++ {
			closes = append(closes, pos)
		}
		if withOthers || open["a"] > 0 {
			b.WriteString("[/]")
		}
	} else {
		for _, n := range []string{"x", "a", "y"} {
			for ; open[n] > 0; open[n]-- {
				if n == "a" {
					closes = append(closes, pos)
					b.WriteString("[/a]")
				} else if withOthers {
					b.WriteString("[/" + n + "]")
				}
			}
		}
	}
	return b.String(), opens, closes, k >= 1
}

func runC13Rep(c c13RepCase) Verdict {
	full, opens, closes, ok := c.render(true)
	if !ok {
		return Verdict{Discard: "no marker named a"}
	}
	bare, _, _, _ := c.render(false)
	type span struct{ pos, length int }
	collect := func(line string) (map[int]span, *Verdict) {
		res, err, panicked := parseFresh(line)
		if panicked != nil {
			v := failf("ParseMarkup(%q) panicked: %v", line, panicked)
			return nil, &v
		}
		if err != nil {
			v := failf("ParseMarkup(%q) failed although every close marker has an open marker of its name before it: %v", line, err)
			return nil, &v
		}
		out := map[int]span{}
		for _, a := range res.Attributes {
			if a.Name != "a" {
				continue
			}
			k := a.Properties["k"].IntegerValue
			if _, dup := out[k]; dup {
				v := failf("ParseMarkup(%q): two attributes for the marker [a k=%d]: %+v", line, k, res.Attributes)
				return nil, &v
			}
			if _, known := opens[k]; !known {
				v := failf("ParseMarkup(%q): an attribute named a with k=%d, which no marker of the line carries: %+v", line, k, res.Attributes)
				return nil, &v
			}
			out[k] = span{a.Position, a.Length}
		}
		return out, nil
	}
	withOthers, v := collect(full)
	if v != nil {
		return *v
	}
	if len(withOthers) != len(opens) {
		return failf("ParseMarkup(%q): %d markers named a were written and closed, %d attributes named a came back: %+v", full, len(opens), len(withOthers), withOthers)
	}
	var ends []int
	for k, at := range opens {
		got, ok := withOthers[k]
		if !ok {
			return failf("ParseMarkup(%q): no attribute for the marker [a k=%d]", full, k)
		}
		if got.pos != at {
			return failf("ParseMarkup(%q): the marker [a k=%d] was written after %d characters of text, its attribute starts at %d", full, k, at, got.pos)
		}
		ends = append(ends, got.pos+got.length)
	}
	sort.Ints(ends)
	wantEnds := append([]int{}, closes...)
	sort.Ints(wantEnds)
	if fmt.Sprint(ends) != fmt.Sprint(wantEnds) {
		return failf("ParseMarkup(%q): the markers named a are closed after %v characters of text, the attributes end at %v", full, wantEnds, ends)
	}
	without, v := collect(bare)
	if v != nil {
		return *v
	}
	for k, a := range withOthers {
		if b := without[k]; a != b {
			return failf("the attribute of [a k=%d] is %d+%d in %q but %d+%d in %q, which is the same line without the markers of other names (they enclose text of their own and are no text themselves)",
				k, a.pos, a.length, full, b.pos, b.length, bare)
		}
	}
	cls := []string{fmt.Sprintf("a-markers=%d", min(len(opens), 4))}
	if full != bare {
		cls = append(cls, "other-names-present")
	}
	return Verdict{NonTrivial: len(opens) >= 2 && full != bare, Classes: cls}
}

var c13Rep = Register(Prop[c13RepCase]{
	ID: "C13", Name: "repeated-names", Run: runC13Rep,
	Gen: func(t *rapid.T) c13RepCase {
		n := rapid.IntRange(3, 14).Draw(t, "tokens")
		var c c13RepCase
		for i := 0; i < n; i++ {
			switch rapid.IntRange(0, 5).Draw(t, "kind") {
			case 0, 1:
				c.Toks = append(c.Toks, c13RepTok{K: "text", T: rapid.SampledFrom([]string{"1", "ab", "é", "日本", "x y", "w"}).Draw(t, "text")})
			case 2, 3:
				c.Toks = append(c.Toks, c13RepTok{K: "open", N: rapid.SampledFrom([]string{"a", "a", "x", "y"}).Draw(t, "name")})
			default:
				c.Toks = append(c.Toks, c13RepTok{K: "close", N: rapid.SampledFrom([]string{"a", "a", "x", "y"}).Draw(t, "name")})
			}
		}
		c.CloseAll = rapid.IntRange(0, 3).Draw(t, "closeall") == 0
		return c
	},
	Render: func(c c13RepCase) any {
		full, _, _, _ := c.render(true)
		bare, _, _, _ := c.render(false)
		return map[string]any{"line": full, "without_other_names": bare}
	},
})

func TestC13RepeatedNames(t *testing.T) { Check(t, c13Rep) }
