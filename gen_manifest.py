#!/usr/bin/env python3
"""Regenerates MANIFEST.json from checks_config.py (run after editing the configuration)."""
import json
import os
import subprocess

HERE = os.path.dirname(os.path.abspath(__file__))
import sys
sys.path.insert(0, HERE)
from checks_config import PROPS, NOT_CLAIMED  # noqa: E402

ids = [json.loads(l)["id"] for l in open(os.path.join(HERE, "properties.jsonl")) if l.strip()]
hook_commits = subprocess.run(["git", "-C", "/repo", "log", "--format=%H", "--", "verif_hooks.go"],
                              stdout=subprocess.PIPE, text=True).stdout.split()
manifest = {
    "version": 1,
    "setup_cmd": "./check --setup",
    "hooks": {
        "guard": "verif",
        "enable": "go test -tags verif (the harness module /verif/harness replaces github.com/remieven/ysgo with /repo and is built with -tags verif)",
        "baseline_off_cmd": "cd /repo && GOFLAGS=-mod=mod GOPROXY=off GOSUMDB=off go test -vet=off -count=1 ./...",
        "source_commits": hook_commits,
        "add_only": True,
    },
    "engines": [{
        "name": "harness",
        "path": "harness/",
        "serves_properties": sorted(PROPS),
        "kind_free_text": "Go test binary: pgregory.net/rapid generators + explicit enumerators + native go fuzz targets, "
                          "one library-free decider (Run) per sub-check; driver ./check (python3) shards, replays, triages, writes evidence",
    }],
    "checks": [],
    "not_applicable": [],
    "notes": "All checks: exit 0 held, 1 violation (VIOLATION line + replay file), 2 could not decide. "
             "VERIF_SEED selects the rapid seeds; native fuzz campaigns (thorough only) are not seed-pinnable. "
             "known_findings.jsonl lists known and fixed findings; replay/<ID>/ holds the regression cases replayed by every run.",
}
for pid in ids:
    if pid in PROPS:
        c = PROPS[pid]
        manifest["checks"].append({
            "property_id": pid,
            "quick_cmd": "./check %s quick" % pid,
            "thorough_cmd": "./check %s thorough" % pid,
            "evidence_file": "evidence/%s.json" % pid,
            "replay_cmd_template": "./check --replay {path}",
            "engine": "harness",
            "level_claimed": {"category": "exploration", "text": c["level_text"], "design_ref": "DESIGN.md section 4, " + pid},
            "level_note": c["level_note"],
            "technique": c["technique"],
        })
    else:
        manifest["not_applicable"].append({"property_id": pid, "reason": NOT_CLAIMED.get(pid, "check not built yet (work in progress)")})
with open(os.path.join(HERE, "MANIFEST.json"), "w") as f:
    json.dump(manifest, f, indent=1)
    f.write("\n")
print("MANIFEST.json: %d checks, %d not claimed" % (len(manifest["checks"]), len(manifest["not_applicable"])))
